#!/bin/bash
# usage: trymut.sh <patch.diff> <ID> [tier]  — applies a seeded mutation to /repo, runs the check, reverts.
set -u
patch="$1"; id="$2"; tier="${3:-quick}"
cd /repo || exit 9
if ! git diff --quiet; then echo "/repo dirty, refusing"; exit 9; fi
git apply "$patch" || { echo "patch does not apply"; exit 9; }
cd /verif && ./check "$id" "$tier" > /tmp/trymut.$$.out 2>&1; rc=$?
git -C /repo checkout -- . 
grep -c "^VIOLATION" /tmp/trymut.$$.out | sed "s/^/violations: /"
grep -m3 "^VIOLATION\|^INCONCLUSIVE\|^HELD\|^KNOWN" /tmp/trymut.$$.out | cut -c1-400
rm -f /tmp/trymut.$$.out
echo "exit=$rc"
