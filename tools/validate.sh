#!/bin/bash
# validates MANIFEST.json and every evidence file against the task's schemas (needs the tooling venv's jsonschema)
python3-vt - <<'PY'
import json,jsonschema,glob,sys
ok=True
m=json.load(open('/verif/MANIFEST.json')); jsonschema.validate(m,json.load(open('/root/.vp/MANIFEST.schema.json')))
sch=json.load(open('/root/.vp/EVIDENCE.schema.json'))
for f in sorted(glob.glob('/verif/evidence/C*.json')):
    try:
        jsonschema.validate(json.load(open(f)),sch)
    except Exception as e:
        ok=False; print(f, 'INVALID:', str(e)[:300])
print('manifest ok;', 'evidence ok' if ok else 'evidence PROBLEMS')
sys.exit(0 if ok else 1)
PY
