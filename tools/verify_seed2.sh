#!/bin/bash
# usage: verify_seed2.sh <ID> <srcdir> <mN>  — confirms a sub-agent mutation in a scratch worktree of /repo HEAD,
# then stores it under /verif/seeded/<ID>-<mN>/ with the verification record in meta.json.
set -u
id="$1"; src="$2"; m="$3"
export GOFLAGS=-mod=mod GOPROXY=off
wt=/tmp/wt/verify-$id-$m
git -C /repo worktree remove --force "$wt" 2>/dev/null
git -C /repo worktree add -q --detach "$wt" HEAD || exit 9
trap 'git -C /repo worktree remove --force "$wt"' EXIT
cd "$wt"
demo_path=$(jq -r .demo_path "$src/meta.json"); demo_cmd=$(jq -r .demo_cmd "$src/meta.json")
demo_file=$(ls "$src"/*_test.go | head -1)
# normalise demo command to this worktree
demo_cmd=$(echo "$demo_cmd" | sed -E "s#^cd [^ ]+ *(&&|;) *##")
git apply "$src/patch.diff" || { echo "APPLY FAILED"; exit 1; }
go build -tags default_build ./... > /tmp/vs.build 2>&1 && b=ok || b=FAIL
go test -vet=off -count=1 ./... > /tmp/vs.suite 2>&1
nok=$(grep -c '^ok' /tmp/vs.suite); nfail=$(grep -c '^--- FAIL\|^FAIL.*\[build failed\]\|^panic' /tmp/vs.suite)
cp "$demo_file" "$wt/$demo_path"
( eval "$demo_cmd" ) > /tmp/vs.demo1 2>&1; d1=$?
git checkout -q -- . 
( eval "$demo_cmd" ) > /tmp/vs.demo0 2>&1; d0=$?
echo "build=$b suite_ok_pkgs=$nok suite_fail_lines=$nfail demo_with_patch_rc=$d1 demo_without_patch_rc=$d0"
if [ "$b" = ok ] && [ "$nok" = 12 ] && [ "$d1" != 0 ] && [ "$d0" = 0 ]; then
  dst=/verif/seeded/$id-$m; mkdir -p "$dst"
  cp "$src/patch.diff" "$dst/patch.diff"; cp "$demo_file" "$dst/"
  jq --arg b "$b" --arg nok "$nok" --arg d1 "$d1" --arg d0 "$d0" --arg cmd "$demo_cmd" --arg head "$(git -C /repo rev-parse --short HEAD)" \
    '. + {verified:{repo_head:$head, build_default_build:$b, pinned_suite_ok_packages:($nok|tonumber), demo_cmd:$cmd, demo_rc_with_patch:($d1|tonumber), demo_rc_without_patch:($d0|tonumber)}}' "$src/meta.json" > "$dst/meta.json"
  echo "STORED $dst"
else
  echo "NOT CONFIRMED"; tail -5 /tmp/vs.demo0
fi
