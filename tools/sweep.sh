#!/bin/bash
# usage: sweep.sh [tier] [seed...]  — runs every registered check, prints one line per check and seed.
tier="${1:-quick}"; shift
seeds="${*:-20260926}"
cd /verif || exit 9
ids=$(python3 -c "import json; print(' '.join(c['property_id'] for c in json.load(open('MANIFEST.json'))['checks']))")
for s in $seeds; do
  for id in $ids; do
    t0=$(date +%s)
    out=$(VERIF_SEED=$s ./check "$id" "$tier" 2>&1); rc=$?
    t1=$(date +%s)
    echo "seed=$s $id rc=$rc $((t1-t0))s $(echo "$out" | grep -c '^VIOLATION') violations, $(echo "$out" | grep -c '^KNOWN-FINDING') known :: $(echo "$out" | grep -v '^KNOWN' | tail -1 | cut -c1-160)"
  done
done
