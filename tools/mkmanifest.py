#!/usr/bin/env python3
"""Generates /verif/MANIFEST.json from the table below (single source of truth)."""
import json, os, subprocess
ROOT = os.path.dirname(os.path.dirname(os.path.abspath(__file__)))

def hook_commits():
    try:
        out = subprocess.check_output(["git", "-C", "/repo", "log", "--format=%h %s"], text=True)
        return [l.split()[0] for l in out.splitlines() if l.split(" ", 1)[1].startswith("verif hooks")]
    except Exception:
        return []

CHECKS = {
 "C14": dict(cat="exploration", technique="differential runtime oracle: kernel-semantics u32 interpreter + netip/big-int evaluator over generated CIDRs, all prefix lengths",
     text="Every u32 classifier key set, derived gateway, route-table id and host veth name terway computes is compared at run time against an independent evaluator; all prefix lengths 0..32/0..128 are enumerated, base addresses and probes are corner cases + PRNG. Held = no disagreement on ~4M (quick) evaluations.",
     note="Trusts net/netip and math/big as the reference; IPv6 subnets inside ::ffff:0:0/96 are excluded (net.IP cannot represent them as IPv6).", ref="§2 C14"),
 "C16": dict(cat="exploration", technique="token monitor on the real key generator/option builders + porcupine linearizability of concurrent issue/rollback histories + wire-level monitor on real OpenAPI over a fault-injecting HTTP cloud; race detector",
     text="Fail/retry scripts with options rebuilt from fresh maps (so Go's random map order is exercised), concurrent issue/rollback histories checked against a token-pool model per parameter set, and end-to-end runs of the real client.OpenAPI (ECS + EFLO SDK clients on a simulated HTTP cloud that implements ClientToken idempotency and injects before/after-effect faults): all wire attempts of one logical operation must carry one token and the cloud must end with one resource.",
     note="Cloud is simulated at the HTTP transport; SDK auto-retry disabled; a retrying caller is assumed to rebuild equal option values.", ref="§2 C16"),
 "C17": dict(cat="exploration", technique="runtime oracle over the real SwitchPool: independent eligibility evaluator, caller-slice snapshot comparison, Block/expiry histories, 16-goroutine shared-pool/shared-slice stress under the race detector",
     text="Each GetOne result is judged against an independent evaluator of (list membership, zone, free count, policy) on generated candidate lists, zones and counts; the caller's slice is compared with its pre-call copy; Block then re-select histories run on a 1h-TTL pool (must stay unchosen) and a 50ms-TTL pool probed 1.1s later (must be re-read); one pool and one candidate slice are shared by 16 goroutines under -race.",
     note="VPC DescribeVSwitch is simulated; expiry is observed through real time with a ≥20× margin.", ref="§2 C17"),
 "C20": dict(cat="exploration", technique="differential runtime oracle (independent RFC 7396 + algebraic laws) on MergeConfigAndUnmarshal; complete enumeration of the CNI-chain input product through the real mergeConfigList/switchDataPathV2/allowEBPFNetworkPolicy in-package (go test -overlay) under private netns/tmpfs",
     text="Merge: generated base/overlay documents over the Config schema are merged by terway and by an independent RFC 7396 implementation and compared after unmarshal; empty-overlay, idempotence and absent-key laws are asserted per case. Chain: the full product (plugin lists × kernel eBPF/EDT × policy provider × virtual type × AutoDataPathV2 × recorded capabilities × cilium_net link × network policy = 52 488 cases) is run through the real generator and each output is parsed and judged.",
     note="chain half runs inside cmd/terway-cli (package main) via -overlay with a private tmpfs on /run for the capabilities file and a veth named cilium_net in a private netns.", ref="§2 C20"),
 "C15": dict(cat="exploration", technique="no-panic monitor over grammar-aware generated inputs in child processes (input logged before each call, recover + crash attribution) + exact bandwidth grammar oracle (big.Rat) with monotonicity",
     text="Every user-writable field named by the property is driven with raw bytes, structured mutations of valid values and boundary numerics into the real entry points (daemon k8s layer, annotation parsers, NUMA-hint path through getENIIndex, both webhook handlers, config merge/validate/pool config, stored-record consumers incl. Local.load/GetIPInfo/ReleaseIP, helper converters, plugin getCmdArgs/parse*Conf in-package). A recovered panic or a crashed child is a violation; well-formed bandwidth values must be accepted with/without unit, equal floor(v*2^k) up to float64 rounding and be monotonic in the unit.",
     note="Generators are grammar-aware, not coverage-guided; only anchored entry points are driven; 8 child processes per run.", ref="§2 C15"),
 "C01": dict(cat="exploration", technique="interval ledger + provenance guard (runtime monitor at the client and cloud boundaries) over concurrent pool histories with cancellation, balancer, sync, drift and cloud faults; Go race detector",
     text="Each history runs the real eni.Manager/Local/Trunk over a simulated cloud with 4..13 concurrent clients; every acknowledged ADD opens a hold interval per address, every DEL closes it before the call; overlaps, repeated-ADD differences, hand-outs of addresses the daemon had already unassigned / seen removed by a completed sync / on an ENI whose deletion was invoked are violations, judged against what was known before the request was invoked. Pool ownership is compared with the ledger at quiescence. 600 (quick) / 8000 (thorough) histories; evidence lists window hit counters and distinct interleaving signatures.",
     note="Cloud simulated at the factory.Factory boundary; per-pod request serialisation and rollback-on-error follow daemon.AllocIP; schedules are sampled, a window counts as explored only if its counter is non-zero.", ref="§2 C01"),
 "C06": dict(cat="exploration", technique="call-time guard on every factory call (open holds, per-ENI counts + in-flight assigns, interface quota + in-flight creates, live queued requests via hook) + late-ack rule; cloud-side quota detector; race detector",
     text="Same pool harness, half of the histories edge-biased (cap 1..3, batch > cap, no idle reserve, balancer running back to back, creations failing after the interface exists). Every CreateNetworkInterface/Assign/UnAssign/Delete is judged when it is invoked: over-limit requests, unassign of a held or primary address, delete of an interface with a hold, with live pending requests (queue inspection hook), of the trunk/erdma interface, and ADDs later served from an interface whose deletion was already invoked.",
     note="Per-ENI limit and quota are the PoolConfig values; pending-request inspection uses a verif-tagged read-only hook in pkg/eni.", ref="§2 C06"),
 "C07": dict(cat="fault_enumeration", technique="fault enumeration (every single-fault placement x 7 kinds over 4 scripts) + random multi-fault histories, then bounded fault-free tail and quiescent agreement oracle (pool Status vs cloud state vs ledger vs idle band)",
     text="All first-order fault placements (mutating cloud call 1..12 x err-before/err-after/partial/quota-eni/vsw-exhaust/quota-ip/half-created) of four fixed request scripts are enumerated, plus random histories with 1..6 faults and cancellations. Faults then stop and the pool is driven (clear inhibit, balancer, sync) for at most 100 counted rounds; at the fixed point interfaces and addresses tracked by the pool must equal the cloud's, no address may be owned by a pod that holds none, nothing may stay 'Deleting', and the idle count must lie in the min/max band (tolerating undisposable primaries and per-family room).",
     note="'Eventually' is decided as bounded progress (100 rounds). No cloud drift in C07 histories. IPv6-only band is not judged (the daemon's config validation rejects that stack).", ref="§2 C07"),
 "C04": dict(cat="exploration", technique="recorded RPC histories of the real networkService checked with porcupine against a sequential sandbox model (partitioned per pod) + online 'processing' guard + interval ledger over replies + record/pool/live-sandbox agreement at quiescence; race detector",
     text="Each history runs the real daemon service (real k8s layer on a simulated API server, real bolt store behind a latency/fault wrapper, real pool on the simulated cloud) under 8..24 concurrent clients issuing ADD / repeated ADD / new-sandbox ADD / DEL and GET with current, previous and unknown container ids, with cancellation before the call, during GetPod, during the store write and while waiting for the pool, plus store write failures. Requests answered 'processing' must overlap another request of the pod and are removed; the rest of every pod's history must be linearizable against the model; addresses in replies feed the C01 ledger; at quiescence pool owners, records and live sandboxes must agree.",
     note="Runtime ordering assumption: primary ADD/DEL of one sandbox are sequential and a new sandbox starts only after DEL of the previous one was issued; stale replays arrive at any time.", ref="§2 C04"),
 "C05": dict(cat="fault_enumeration", technique="crash-point enumeration: bolt-file + cloud + acknowledged-reply images at every effect boundary, each restarted through the real restart path and judged; SIGKILL of a real DiskStorage write stream in a child process; differential oracle on the restart-time record filter",
     text="While daemon histories run, an image is taken before/after every database write, after every reply and after every mutating cloud call (2.9k boundaries, 1.8k restarted in quick). Each image is restarted like builder.setupENIManager (NewDiskStorage on the copy, attached ENIs, filterENINotFound, NewLocal, Manager.Run(records)) behind the real networkService: acknowledged ADDs must keep record, pool ownership and address on a repeated ADD; acknowledged DELs must be gone; fresh pods must never receive an acknowledged address. A child process streaming Put/Delete through DiskStorage is SIGKILLed at PRNG-chosen instants and the reopened store compared with the acknowledged prefix.",
     note="SIGKILL, not power failure. Images are only taken while no write transaction is open (crash inside bolt's commit is exercised by the kill test only). Reservoir sampling above K images per history; counts of enumerated vs restarted points are in evidence.", ref="§2 C05"),
 "C09": dict(cat="exploration", technique="state oracle over generated (store, pod set) pairs driven through the real gcPods in a private netns, pass by pass; concurrent RPC traffic and re-created pods during GC; kernel rule inspection",
     text="Records are produced by real ADDs and then turned into running / exited / vanished / moved / sticky / recreated / lookup-failing pods, on the kernel-attached ENI and on ENIs that are not attached, with optional List failure, a persistently failing store delete and concurrent ADD/GET or re-creation + ADD during the pass. After each of five passes: existing and lookup-failing pods keep record and ownership, absent pods are collected within two (sticky: three) passes even when another record's clean-up fails, planted ip rules of collected pods are gone from the kernel, the last pass changes nothing.",
     note="Runs under unshare -n -m; lo (MAC reported as empty) is the only kernel device, so 'ENI attached' = MAC \"\". API server simulated, incl. the Raw field selector the fake client ignores.", ref="§2 C09"),
 "C12": dict(cat="exploration", technique="runtime oracle on AllocIP replies of the real networkService in local / CRD / PodENI mode (independent subnet + gateway evaluator, default-route and primary-interface counting, reply-vs-record comparison) + in-package differential monitor of the plugin's parseSetupConf/parseCheckConf/parseTearDownConf against the datapath table",
     text="Replies are produced by the real daemon over (i) the local pool on the simulated cloud, (ii) the real CRDV2.multiIP over generated Node CRs and (iii) the real eni.Remote over generated PodENI objects with 1..4 interfaces, trunk or not, 0/1/2/all default-route flags, with and without eth0; each reply must name one default route and the primary interface, carry addresses inside the reported subnet with the third-from-last gateway != address, and malformed allocations must be rejected. In plugin/terway (overlay) 40k generated (daemon configuration x CNI configuration) pairs are parsed for ADD/CHECK/DEL and compared field by field and against the (IP type, trunk, vlan mode) table.",
     note="Node CR / PodENI contents are generated well-formed apart from the flag patterns under test; MAC \"\" resolves to lo where the plugin needs a kernel device.", ref="§2 C12"),
 "C02": dict(cat="exploration", technique="runtime monitor on every Node CR write (API-server observer) and on every agent reply in closed-loop IPAM histories: real multi-ip ReconcileNode + real daemon service/CRDV2 agent on a simulated API server and a simulated cloud with faults, drift, controller restarts, take-over records; race detector",
     text="Histories of pod creation, reconcile, CNI ADD/DEL, forced and graceful deletion, agent flush/GC, controller restart, cloud drift, cloud and API-server faults run against the real controller and the real node agent. Every stored Node record is judged: a pod holds at most one IPv4 and one IPv6, both on one interface; a new binding uses a Valid address on an InUse interface; RDMA pods sit on RDMA interfaces and only they; an interface is not marked Deleting while an address on it is bound; a pod that already reports addresses is re-adopted onto exactly those; the agent hands out exactly what the record binds.",
     note="Cloud simulated at the register.Interface boundary, API server simulated (optimistic locking, status subresources, field selector); schedules are sampled, not enumerated; the controller's map iteration order makes histories non-replayable bit-for-bit (replay files carry the event trace).", ref="§2 C02"),
 "C03": dict(cat="exploration", technique="reclaim guard (runtime monitor) on every Node CR write and every cloud unassign/detach/delete against the kubelet simulator's ground truth and the stored NodeRuntime; NodeRuntime write observer; step-counted bounded progress; race detector",
     text="Same closed loop as C02 with deletion choreographies drawn per pod (graceful, forced, DEL never, stale DEL replays, sandbox restarts), lost/failing/first-ever NodeRuntime writes, agent GC rounds with failing pod reads and aged runtime records, pool GC pressure, controller restarts. Each write that unbinds, re-binds, marks Deleting or drops a bound address and each cloud release call is judged against (pod exists | sandbox live | teardown not reported); each newly reported teardown against the DELs the agent processed or the pods it verified gone; a pod that is gone, torn down and reported must have its addresses free within 10 reconciles.",
     note="Bounded progress = 10 reconciles after faults stop. Reclaims that follow an out-of-band cloud removal of the pod's address are counted, not judged. Two known findings (podUID-less legacy entries) are listed in known_findings.json.", ref="§2 C03"),
 "C08": dict(cat="exploration", technique="call-time quota guard + fixed-point oracle (runtime monitors) over closed-loop IPAM histories on the real multi-ip ReconcileNode: record==cloud agreement after forced full sync, leak detection, eligible-pod and pool-band judgement; complete single-fault enumeration of a scripted scenario (every cloud-call position x 7 fault kinds, every Node-record write position x {conflict, lost}); race detector",
     text="Every CreateNetworkInterface / Assign* is judged at call time against interface slots and per-interface limits. After each history faults stop, pending teardowns complete, the vSwitch cache expires, a full sync is forced and the controller must reach within 40 reconciles two consecutive rounds without cloud mutation or record change; at that fixed point the record must equal the cloud (interfaces, addresses, no Deleting leftovers), nothing the controller created may be outside the record, every eligible pod is bound in every enabled family, and idle addresses lie in [min,max] wherever limits leave room. A scripted arrival/departure scenario is replayed with one fault at every position of its cloud-call and record-write sequences.",
     note="Cloud simulated above the SDK retries; a create that fails after its effect without returning the id is not counted as a leak. Capacity is computed independently of getEniOptions. Pods that report a vanished address or hold one family while waiting for the other are counted, not judged. One known finding (dual-stack pool oscillation with an unpaired idle primary) in known_findings.json.", ref="§2 C08"),
 "C19": dict(cat="exploration", technique="differential runtime oracle: independent arithmetic on generated instance-type vectors vs the real limit provider -> checkInstance/getPoolConfig and controller ReconcileNode -> daemon-side nodeReconcile -> controller (annotations, allocatable) on the simulated API server",
     text="Instance-type vectors and configurations are generated; the real LimitProviders[ecs] (GetLimit over a simulated DescribeInstanceTypes, and GetLimitFromAnno), daemon checkInstance/getPoolConfig, controller node.ReconcileNode and the daemon-side Node-CR reconciler are run in their production order; every advertised number (MaxENI, per-ENI addresses, capacity, watermarks, member ENIs, RDMA capacity, flavor counts, max-available-ip, allocatable eni/member-eni) is compared with the independently computed instance limits, and features the type lacks must be reported disabled.",
     note="Default ratio 1 / shift 0, non-negative sizes. The daemon-side ERDMA flavor is not exercised (enabling it starts the kubelet device plugin, which exits the process in this sandbox).", ref="§2 C19"),
 "C18": dict(cat="exploration", technique="runtime oracle on admission responses of the real mutating webhook: scenario-known verdicts + structural invariants on the pod obtained by applying the response patch to the submitted bytes",
     text="Ten admission scenarios (host network, ignored label, unmatched, PodNetworking matched by pod / namespace selector, explicit network list, network requests, conflicting annotations, fixed IP without stable name, pod-eni flag) are generated over pods, PodNetworking sets, namespaces and cluster configuration; pods terway does not own must be admitted without patch, invalid ones denied, and every pod marked for a dedicated ENI must carry a parseable network list with unique 1..5 character interfaces, vSwitches, <=10 security groups, an allocation type, a device request equal to the number of networks under the right resource name, and a zone affinity inside the zones common to all requested networks.",
     note="API server simulated; pods are generated without pre-existing affinity. One known finding (non-eth0 entries are not defaulted) is listed in known_findings.json.", ref="§2 C18"),
}
NOT_YET = {}

def main():
    props = [json.loads(l) for l in open(os.path.join(ROOT, "properties.jsonl"))]
    checks = []
    na = []
    for p in props:
        i = p["id"]
        if i in CHECKS:
            c = CHECKS[i]
            checks.append({
                "property_id": i,
                "quick_cmd": f"./check {i} quick",
                "thorough_cmd": f"./check {i} thorough",
                "evidence_file": f"/verif/evidence/{i}.json",
                "replay_cmd_template": f"./check {i} quick --replay {{path}}",
                "engine": "verifrun",
                "level_claimed": {"category": c["cat"], "text": c["text"], "design_ref": c["ref"]},
                "level_note": c["note"],
                "technique": c["technique"],
            })
        else:
            na.append({"property_id": i, "reason": NOT_YET.get(i, "monitor not built yet in this round (runtime monitoring applies; see DESIGN.md §2)")})
    m = {
        "version": 1,
        "setup_cmd": "./setup.sh",
        "hooks": {
            "guard": "verif",
            "enable": "go build -race -tags default_build,verif (harness module /verif/harness with replace => /repo); package-main code via go test -overlay",
            "baseline_off_cmd": "cd /repo && GOFLAGS=-mod=mod GOPROXY=off go test -vet=off -count=1 ./...",
            "source_commits": hook_commits(),
            "add_only": True,
        },
        "engines": [{"name": "verifrun", "path": "/verif/harness/cmd/verifrun", "serves_properties": sorted(CHECKS), "kind_free_text": "Go binary built -race from /repo's working tree: workloads + simulators (cloud, API server) + runtime monitors; parent spawns one child per batch and parses race-detector logs"}],
        "checks": checks,
        "not_applicable": na,
        "notes": "Technique family: runtime monitoring and sanitizers (Go race detector + hand-written monitors). Exit 2 = inconclusive (never folded into held). Known findings: /verif/known_findings.json.",
    }
    json.dump(m, open(os.path.join(ROOT, "MANIFEST.json"), "w"), indent=1)
    print("MANIFEST.json:", len(checks), "checks,", len(na), "not_applicable")

main()
