// Package monitor holds what every check shares: the violation record with its fixed
// class id and site discriminator, the known-findings matcher, the evidence writer and the
// three-valued verdict (held / violated / inconclusive).
package monitor

import (
	"encoding/json"
	"fmt"
	"os"
	"path/filepath"
	"sort"
	"strconv"
	"strings"
	"sync"
	"time"
)

// Violation is one refuting observation. Class is the fixed id of the oracle clause
// (e.g. "C01.a-overlap"), Site discriminates where/what (entry point, API+fault kind,
// input shape) so that a known finding matches only its own witness.
type Violation struct {
	Class  string `json:"class"`
	Site   string `json:"site"`
	Detail string `json:"detail"`
	Replay any    `json:"replay,omitempty"`
}

type Result struct {
	Property string
	Tier     string
	Seed     int64
	Level    string

	mu           sync.Mutex
	Evaluations  int64
	Distinct     int64
	Rule         string
	Samples      []any
	Extra        map[string]any
	Assumptions  []string
	violations   []Violation
	inconclusive []string
	start        time.Time
	distinctSet  map[string]struct{}
	counters     map[string]int64
}

func NewResult(prop, tier string, seed int64, level string) *Result {
	return &Result{Property: prop, Tier: tier, Seed: seed, Level: level, Extra: map[string]any{},
		start: time.Now(), distinctSet: map[string]struct{}{}, counters: map[string]int64{}}
}

func (r *Result) Violate(class, site, detail string, replay any) {
	r.mu.Lock()
	defer r.mu.Unlock()
	// keep at most 50 witnesses per (class,site); count the rest
	n := 0
	for _, v := range r.violations {
		if v.Class == class && v.Site == site {
			n++
		}
	}
	r.counters["violation:"+class+"|"+site]++
	if n >= 5 {
		return
	}
	r.violations = append(r.violations, Violation{class, site, detail, replay})
}

func (r *Result) Inconclusive(why string) {
	r.mu.Lock()
	defer r.mu.Unlock()
	if len(r.inconclusive) < 50 {
		r.inconclusive = append(r.inconclusive, why)
	}
}

func (r *Result) Eval(n int64) {
	r.mu.Lock()
	r.Evaluations += n
	r.mu.Unlock()
}

// DistinctKey records a non-trivial case signature; the number of distinct keys is
// reported as distinct_nontrivial.
func (r *Result) DistinctKey(k string) {
	r.mu.Lock()
	r.distinctSet[k] = struct{}{}
	r.mu.Unlock()
}

func (r *Result) Count(name string, n int64) {
	r.mu.Lock()
	r.counters[name] += n
	r.mu.Unlock()
}

func (r *Result) Max(name string, n int64) {
	r.mu.Lock()
	name = "max:" + name
	if r.counters[name] < n {
		r.counters[name] = n
	}
	r.mu.Unlock()
}

func (r *Result) Counter(name string) int64 {
	r.mu.Lock()
	defer r.mu.Unlock()
	return r.counters[name]
}

func (r *Result) Sample(s any) {
	r.mu.Lock()
	if len(r.Samples) < 5 {
		r.Samples = append(r.Samples, s)
	}
	r.mu.Unlock()
}

func (r *Result) SetExtra(k string, v any) {
	r.mu.Lock()
	r.Extra[k] = v
	r.mu.Unlock()
}

func (r *Result) NumViolations() int {
	r.mu.Lock()
	defer r.mu.Unlock()
	return len(r.violations)
}

func Root() string {
	if v := os.Getenv("VERIF_ROOT"); v != "" {
		return v
	}
	return "/verif"
}

type knownFile struct {
	Findings []struct {
		Property string `json:"property"`
		Class    string `json:"class"`
		Site     string `json:"site"`
		What     string `json:"what"`
	} `json:"findings"`
	Fixed []json.RawMessage `json:"fixed"`
}

func loadKnown() knownFile {
	var k knownFile
	b, err := os.ReadFile(filepath.Join(Root(), "known_findings.json"))
	if err != nil {
		return k
	}
	_ = json.Unmarshal(b, &k)
	return k
}

// Finish writes the evidence file, prints KNOWN-FINDING / VIOLATION lines and returns the
// process exit code: 0 held, 1 violated, 2 inconclusive (no VIOLATION line).
func (r *Result) Finish() int {
	r.mu.Lock()
	defer r.mu.Unlock()
	known := loadKnown()
	var unknown []Violation
	knownHit := map[string]string{}
	for _, v := range r.violations {
		matched := false
		for _, k := range known.Findings {
			if k.Property == r.Property && k.Class == v.Class && (k.Site == v.Site || k.Site == "*") {
				knownHit[k.Class+" "+k.Site] = k.What
				matched = true
				break
			}
		}
		if !matched {
			unknown = append(unknown, v)
		}
	}
	keys := make([]string, 0, len(knownHit))
	for k := range knownHit {
		keys = append(keys, k)
	}
	sort.Strings(keys)
	for _, k := range keys {
		fmt.Printf("KNOWN-FINDING: property=%s %s: %s\n", r.Property, k, knownHit[k])
	}

	distinct := r.Distinct + int64(len(r.distinctSet))
	cov := map[string]any{
		"evaluations":         r.Evaluations,
		"distinct_nontrivial": distinct,
		"rule":                r.Rule,
		"samples":             r.Samples,
		"counters":            r.counters,
	}
	for k, v := range r.Extra {
		cov[k] = v
	}
	if r.Samples == nil {
		cov["samples"] = []any{}
	}
	if len(r.inconclusive) > 0 {
		cov["inconclusive"] = r.inconclusive
	}
	if len(knownHit) > 0 {
		cov["known_findings_observed"] = keys
	}
	ev := map[string]any{
		"property_id": r.Property,
		"tier":        r.Tier,
		"seed":        r.Seed,
		"level":       r.Level,
		"coverage":    cov,
		"assumptions": r.Assumptions,
		"wall_s":      time.Since(r.start).Seconds(),
		"violations":  len(unknown),
	}
	if r.Assumptions == nil {
		ev["assumptions"] = []string{}
	}
	evdir := filepath.Join(Root(), "evidence")
	_ = os.MkdirAll(evdir, 0o755)
	b, _ := json.MarshalIndent(ev, "", " ")
	if err := os.WriteFile(filepath.Join(evdir, r.Property+".json"), b, 0o644); err != nil {
		fmt.Fprintln(os.Stderr, "cannot write evidence:", err)
	}

	if len(unknown) > 0 {
		rpdir := filepath.Join(Root(), "replays")
		_ = os.MkdirAll(rpdir, 0o755)
		for i, v := range unknown {
			p := filepath.Join(rpdir, fmt.Sprintf("%s-seed%d-%d.json", r.Property, r.Seed, i))
			wb, _ := json.MarshalIndent(map[string]any{"property": r.Property, "tier": r.Tier, "seed": r.Seed, "violation": v}, "", " ")
			_ = os.WriteFile(p, wb, 0o644)
			fmt.Printf("VIOLATION property=%s replay=%s class=%s site=%s :: %s\n", r.Property, p, v.Class, v.Site, oneLine(v.Detail))
		}
		return 1
	}
	if len(r.inconclusive) > 0 {
		for _, w := range r.inconclusive {
			fmt.Printf("INCONCLUSIVE property=%s %s\n", r.Property, oneLine(w))
		}
		return 2
	}
	if r.Evaluations == 0 || distinct < 2 {
		fmt.Printf("INCONCLUSIVE property=%s observed nothing (evaluations=%d distinct=%d)\n", r.Property, r.Evaluations, distinct)
		return 2
	}
	fmt.Printf("HELD property=%s tier=%s seed=%d evaluations=%d distinct=%d wall=%.1fs\n", r.Property, r.Tier, r.Seed, r.Evaluations, distinct, time.Since(r.start).Seconds())
	return 0
}

// Dump is the serialisable form of a Result, used between batch child processes and the parent.
type Dump struct {
	Evaluations  int64
	Distinct     int64
	Rule         string
	Samples      []any
	Extra        map[string]any
	Assumptions  []string
	Violations   []Violation
	Inconclusive []string
	DistinctSet  []string
	Counters     map[string]int64
}

func (r *Result) Export() Dump {
	r.mu.Lock()
	defer r.mu.Unlock()
	d := Dump{Evaluations: r.Evaluations, Distinct: r.Distinct, Rule: r.Rule, Samples: r.Samples, Extra: r.Extra,
		Assumptions: r.Assumptions, Violations: r.violations, Inconclusive: r.inconclusive, Counters: r.counters}
	for k := range r.distinctSet {
		d.DistinctSet = append(d.DistinctSet, k)
	}
	return d
}

// Merge adds a child's dump. Counters whose name starts with "max:" are merged by maximum.
func (r *Result) Merge(d Dump) {
	r.mu.Lock()
	defer r.mu.Unlock()
	r.Evaluations += d.Evaluations
	r.Distinct += d.Distinct
	if r.Rule == "" {
		r.Rule = d.Rule
	}
	for _, s := range d.Samples {
		if len(r.Samples) < 5 {
			r.Samples = append(r.Samples, s)
		}
	}
	for k, v := range d.Extra {
		r.Extra[k] = v
	}
	if len(r.Assumptions) == 0 {
		r.Assumptions = d.Assumptions
	}
	r.violations = append(r.violations, d.Violations...)
	r.inconclusive = append(r.inconclusive, d.Inconclusive...)
	for _, k := range d.DistinctSet {
		r.distinctSet[k] = struct{}{}
	}
	for k, v := range d.Counters {
		if strings.HasPrefix(k, "max:") {
			if r.counters[k] < v {
				r.counters[k] = v
			}
		} else {
			r.counters[k] += v
		}
	}
}

func oneLine(s string) string {
	s = strings.ReplaceAll(s, "\n", " | ")
	if len(s) > 400 {
		s = s[:400] + "…"
	}
	return s
}

func SeedFromEnv() int64 {
	if v := os.Getenv("VERIF_SEED"); v != "" {
		if n, err := strconv.ParseInt(v, 10, 64); err == nil {
			return n
		}
	}
	return 20260926
}
