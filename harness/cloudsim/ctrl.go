package cloudsim

// CtrlCloud: the cloud as the control plane sees it — register.Interface (VPC + ECS + ENI + EFLO)
// over one authoritative state, with a call log, a fault plan keyed by mutating-call index and a
// listener. ENI ids, MACs and addresses are never re-issued inside one CtrlCloud.

import (
	"context"
	"fmt"
	"math/rand"
	"net/netip"
	"sort"
	"sync"
	"time"

	"github.com/aliyun/alibaba-cloud-sdk-go/services/ecs"
	"github.com/aliyun/alibaba-cloud-sdk-go/services/eflo"
	"github.com/aliyun/alibaba-cloud-sdk-go/services/vpc"
	"k8s.io/apimachinery/pkg/util/wait"

	"github.com/AliyunContainerService/terway/pkg/aliyun/client"
	apiErr "github.com/AliyunContainerService/terway/pkg/aliyun/client/errors"
)

type CVSW struct {
	ID, Zone     string
	CIDR4, CIDR6 string
	Free         int64
	next         uint32
}

type CENI struct {
	ID, MAC      string
	Type         string // Secondary | Trunk | Member
	TrafficMode  string // Standard | HighPerformance
	Status       string // Available | Attaching | InUse | Detaching | Deleting
	InstanceID   string
	TrunkID      string
	VSW          string
	Zone         string
	Primary      string
	V4, V6       []string // V4[0] is the primary
	Tags         map[string]string
	SGs          []string
	CreationTime string
	Deleted      bool
}

type CInstance struct {
	ID                 string
	MaxENI             int // attachable secondary interfaces (adapters - 1)
	V4PerENI, V6PerENI int
	MemberLimit        int
}

type CCall struct {
	Seq      int64
	API      string
	ENI      string
	Instance string
	VSW      string // vSwitch named by a create call
	N4, N6   int
	IPs      []string
	Fault    FaultKind
	Err      string
	Result   []string
	TCall    int64
	TRet     int64
	Mutating bool
}

type CListener interface {
	OnInvoke(c *CtrlCloud, call *CCall)
	OnReturn(c *CtrlCloud, call *CCall)
}

type CtrlCloud struct {
	mu        sync.Mutex
	Now       func() int64
	VSWs      map[string]*CVSW
	ENIs      map[string]*CENI
	Instances map[string]*CInstance
	ITypes    map[string]ecs.InstanceType
	nextENI   int
	calls     []*CCall
	mutating  int
	Plan      map[int]Fault
	Stopped   bool
	FailAPI   map[string]int // api -> number of next calls of that API that fail before effect (targeted fault)
	Lis       CListener
	Rng       *rand.Rand
	quotaEv   []string
	issued    map[string]string // address -> eni
	Latency   func() time.Duration
}

func NewCtrlCloud(now func() int64, seed int64) *CtrlCloud {
	return &CtrlCloud{Now: now, VSWs: map[string]*CVSW{}, ENIs: map[string]*CENI{}, Instances: map[string]*CInstance{}, ITypes: map[string]ecs.InstanceType{}, Plan: map[int]Fault{},
		Rng: rand.New(rand.NewSource(seed)), issued: map[string]string{}}
}

func (c *CtrlCloud) AddVSW(id, zone string, idx int, free int64) {
	c.mu.Lock()
	defer c.mu.Unlock()
	c.VSWs[id] = &CVSW{ID: id, Zone: zone, CIDR4: fmt.Sprintf("10.%d.0.0/16", idx), CIDR6: fmt.Sprintf("fd00:%x::/64", idx), Free: free, next: 10}
}

func (c *CtrlCloud) AddInstance(id string, maxENI, v4, v6, member int) {
	c.mu.Lock()
	defer c.mu.Unlock()
	c.Instances[id] = &CInstance{ID: id, MaxENI: maxENI, V4PerENI: v4, V6PerENI: v6, MemberLimit: member}
}

func (c *CtrlCloud) StopFaults() { c.mu.Lock(); c.Stopped = true; c.mu.Unlock() }

func (c *CtrlCloud) code(code string) error { return codeErr(code) }

func (c *CtrlCloud) begin(api, eni, inst string, n4, n6 int, ips []string, mutating bool, vsw ...string) (*CCall, Fault) {
	c.mu.Lock()
	call := &CCall{Seq: int64(len(c.calls) + 1), API: api, ENI: eni, Instance: inst, N4: n4, N6: n6, IPs: append([]string(nil), ips...), TCall: c.Now(), Mutating: mutating}
	if len(vsw) > 0 {
		call.VSW = vsw[0]
	}
	c.calls = append(c.calls, call)
	var f Fault
	if mutating {
		c.mutating++
		if !c.Stopped {
			f = c.Plan[c.mutating]
			if c.FailAPI[api] > 0 {
				c.FailAPI[api]--
				f = Fault{Kind: FaultErrBefore}
			}
		}
	} else if !c.Stopped && c.FailAPI[api] > 0 {
		// a targeted read failure (the listing calls are not part of the positional plan)
		c.FailAPI[api]--
		f = Fault{Kind: FaultErrBefore}
	}
	if f.Kind == "" {
		f.Kind = FaultNone
	}
	call.Fault = f.Kind
	if c.Lis != nil {
		c.Lis.OnInvoke(c, call)
	}
	lat := c.Latency
	c.mu.Unlock()
	if f.DelayA > 0 {
		time.Sleep(f.DelayA)
	} else if lat != nil {
		time.Sleep(lat())
	}
	c.mu.Lock()
	return call, f
}

// end: lock held on entry, released here.
func (c *CtrlCloud) end(call *CCall, res []string, err error) {
	call.Result = res
	if err != nil {
		call.Err = err.Error()
	}
	call.TRet = c.Now()
	if c.Lis != nil {
		c.Lis.OnReturn(c, call)
	}
	c.mu.Unlock()
}

func (c *CtrlCloud) newAddr(v *CVSW, v6 bool) string {
	v.next++
	if v6 {
		p := netip.MustParsePrefix(v.CIDR6)
		b := p.Addr().As16()
		b[14], b[15] = byte(v.next>>8), byte(v.next)
		return netip.AddrFrom16(b).String()
	}
	p := netip.MustParsePrefix(v.CIDR4)
	b := p.Addr().As4()
	b[2], b[3] = byte(v.next>>8), byte(v.next)
	return netip.AddrFrom4(b).String()
}

func (c *CtrlCloud) toNI(e *CENI) *client.NetworkInterface {
	ni := &client.NetworkInterface{Status: e.Status, MacAddress: e.MAC, NetworkInterfaceID: e.ID, VSwitchID: e.VSW, PrivateIPAddress: e.Primary, ZoneID: e.Zone, SecurityGroupIDs: e.SGs,
		Type: e.Type, InstanceID: e.InstanceID, TrunkNetworkInterfaceID: e.TrunkID, NetworkInterfaceTrafficMode: e.TrafficMode, CreationTime: e.CreationTime}
	for i, a := range e.V4 {
		ni.PrivateIPSets = append(ni.PrivateIPSets, client.IPSet{IPAddress: a, Primary: i == 0})
	}
	for _, a := range e.V6 {
		ni.IPv6Set = append(ni.IPv6Set, client.IPSet{IPAddress: a})
	}
	var keys []string
	for k := range e.Tags {
		keys = append(keys, k)
	}
	sort.Strings(keys)
	for _, k := range keys {
		ni.Tags = append(ni.Tags, ecs.Tag{Key: k, Value: e.Tags[k], TagKey: k, TagValue: e.Tags[k]})
	}
	return ni
}

func faultErr(f Fault) error {
	switch f.Kind {
	case FaultQuotaENI:
		return codeErr("EniPerInstanceLimitExceeded")
	case FaultVSwExhaust:
		return codeErr("InvalidVSwitchId.IpNotEnough")
	case FaultQuotaIP:
		return codeErr("QuotaExceeded.PrivateIpAddress")
	}
	return codeErr("Throttling")
}

func (c *CtrlCloud) attachedCountLocked(inst string) int {
	n := 0
	for _, e := range c.ENIs {
		if !e.Deleted && e.InstanceID == inst && e.Type != "Member" && e.Type != "Primary" && (e.Status == "InUse" || e.Status == "Attaching" || e.Status == "Detaching") {
			n++
		}
	}
	return n
}

// ---------- ENI / ECS ----------

func (c *CtrlCloud) create(ctx context.Context, opts ...client.CreateNetworkInterfaceOption) (*client.NetworkInterface, error) {
	o := &client.CreateNetworkInterfaceOptions{}
	for _, x := range opts {
		x.ApplyCreateNetworkInterface(o)
	}
	nio := o.NetworkInterfaceOptions
	if nio == nil {
		return nil, client.ErrInvalidArgs
	}
	call, f := c.begin("CreateNetworkInterface", "", nio.InstanceID, nio.IPCount, nio.IPv6Count, nil, true, nio.VSwitchID)
	v := c.VSWs[nio.VSwitchID]
	if v == nil {
		err := codeErr("InvalidVSwitchId.NotFound")
		c.end(call, nil, err)
		return nil, err
	}
	switch f.Kind {
	case FaultErrBefore, FaultQuotaENI, FaultVSwExhaust, FaultQuotaIP:
		err := faultErr(f)
		c.end(call, nil, err)
		return nil, err
	}
	need := int64(max(nio.IPCount, 1) + nio.IPv6Count)
	if v.Free < need {
		err := codeErr("InvalidVSwitchId.IpNotEnough")
		c.end(call, nil, err)
		return nil, err
	}
	v.Free -= need
	c.nextENI++
	e := &CENI{ID: fmt.Sprintf("eni-c%04d", c.nextENI), MAC: fmt.Sprintf("00:16:3e:01:%02x:%02x", c.nextENI>>8, c.nextENI&0xff), Type: "Secondary", TrafficMode: "Standard", Status: "Available",
		VSW: v.ID, Zone: v.Zone, Tags: map[string]string{}, SGs: append([]string(nil), nio.SecurityGroupIDs...), CreationTime: time.Now().UTC().Format("2006-01-02T15:04:05Z")}
	if nio.Trunk {
		e.Type = "Trunk"
	}
	if nio.ERDMA {
		e.TrafficMode = "HighPerformance"
	}
	for k, val := range nio.Tags {
		e.Tags[k] = val
	}
	for i := 0; i < max(nio.IPCount, 1); i++ {
		a := c.newAddr(v, false)
		e.V4 = append(e.V4, a)
		c.issued[a] = e.ID
	}
	e.Primary = e.V4[0]
	for i := 0; i < nio.IPv6Count; i++ {
		a := c.newAddr(v, true)
		e.V6 = append(e.V6, a)
		c.issued[a] = e.ID
	}
	c.ENIs[e.ID] = e
	call.ENI = e.ID
	if f.Kind == FaultErrAfter || f.Kind == FaultPartial || f.Kind == FaultHalfCreated {
		err := fmt.Errorf("injected: timeout after the interface %s was created", e.ID)
		c.end(call, append(append([]string{}, e.V4...), e.V6...), err)
		return nil, err
	}
	ni := c.toNI(e)
	c.end(call, append(append([]string{}, e.V4...), e.V6...), nil)
	return ni, nil
}

func (c *CtrlCloud) CreateNetworkInterface(ctx context.Context, opts ...client.CreateNetworkInterfaceOption) (*client.NetworkInterface, error) {
	return c.create(ctx, opts...)
}
func (c *CtrlCloud) CreateNetworkInterfaceV2(ctx context.Context, opts ...client.CreateNetworkInterfaceOption) (*client.NetworkInterface, error) {
	return c.create(ctx, opts...)
}

func matchTags(e *CENI, tags map[string]string) bool {
	for k, v := range tags {
		if e.Tags[k] != v {
			return false
		}
	}
	return true
}

func (c *CtrlCloud) describe(ids []string, inst, typ, status string, tags map[string]string) []*client.NetworkInterface {
	var out []*client.NetworkInterface
	var keys []string
	for id := range c.ENIs {
		keys = append(keys, id)
	}
	sort.Strings(keys)
	want := map[string]bool{}
	for _, id := range ids {
		want[id] = true
	}
	for _, id := range keys {
		e := c.ENIs[id]
		if e.Deleted {
			continue
		}
		if len(ids) > 0 && !want[id] {
			continue
		}
		if inst != "" && e.InstanceID != inst {
			continue
		}
		if typ != "" && e.Type != typ {
			continue
		}
		if status != "" && e.Status != status {
			continue
		}
		if !matchTags(e, tags) {
			continue
		}
		out = append(out, c.toNI(e))
	}
	return out
}

func (c *CtrlCloud) DescribeNetworkInterface(ctx context.Context, vpcID string, eniID []string, instanceID string, instanceType string, status string, tags map[string]string) ([]*client.NetworkInterface, error) {
	call, f := c.begin("DescribeNetworkInterface", "", instanceID, 0, 0, eniID, false)
	_ = f
	out := c.describe(eniID, instanceID, instanceType, status, tags)
	c.end(call, nil, nil)
	return out, nil
}

func (c *CtrlCloud) DescribeNetworkInterfaceV2(ctx context.Context, opts ...client.DescribeNetworkInterfaceOption) ([]*client.NetworkInterface, error) {
	o := &client.DescribeNetworkInterfaceOptions{}
	for _, x := range opts {
		x.ApplyTo(o)
	}
	var ids []string
	inst, typ, status := "", "", ""
	var tags map[string]string
	if o.NetworkInterfaceIDs != nil {
		ids = *o.NetworkInterfaceIDs
	}
	if o.InstanceID != nil {
		inst = *o.InstanceID
	}
	if o.InstanceType != nil {
		typ = *o.InstanceType
	}
	if o.Status != nil {
		status = *o.Status
	}
	if o.Tags != nil {
		tags = *o.Tags
	}
	call, f := c.begin("DescribeNetworkInterface", "", inst, 0, 0, ids, false)
	if f.Kind == FaultErrBefore {
		err := c.code("Throttling")
		c.end(call, nil, err)
		return nil, err
	}
	out := c.describe(ids, inst, typ, status, tags)
	c.end(call, nil, nil)
	return out, nil
}

func (c *CtrlCloud) AttachNetworkInterface(ctx context.Context, opts ...client.AttachNetworkInterfaceOption) error {
	o := &client.AttachNetworkInterfaceOptions{}
	for _, x := range opts {
		x.ApplyTo(o)
	}
	id, inst, trunk := "", "", ""
	if o.NetworkInterfaceID != nil {
		id = *o.NetworkInterfaceID
	}
	if o.InstanceID != nil {
		inst = *o.InstanceID
	}
	if o.TrunkNetworkInstanceID != nil {
		trunk = *o.TrunkNetworkInstanceID
	}
	call, f := c.begin("AttachNetworkInterface", id, inst, 0, 0, nil, true)
	e := c.ENIs[id]
	if e == nil || e.Deleted {
		err := codeErr("InvalidEniId.NotFound")
		c.end(call, nil, err)
		return err
	}
	if f.Kind == FaultErrBefore || f.Kind == FaultQuotaENI || f.Kind == FaultVSwExhaust || f.Kind == FaultQuotaIP {
		err := faultErr(f)
		c.end(call, nil, err)
		return err
	}
	if trunk == "" {
		if in := c.Instances[inst]; in != nil && c.attachedCountLocked(inst) >= in.MaxENI && e.InstanceID != inst {
			c.quotaEv = append(c.quotaEv, fmt.Sprintf("attach of %s to %s which already has %d of %d interfaces", id, inst, c.attachedCountLocked(inst), in.MaxENI))
			err := codeErr("EniPerInstanceLimitExceeded")
			c.end(call, nil, err)
			return err
		}
	}
	e.InstanceID, e.Status = inst, "InUse"
	if trunk != "" {
		e.Type, e.TrunkID = "Member", trunk
	}
	if f.Kind == FaultErrAfter || f.Kind == FaultPartial || f.Kind == FaultHalfCreated {
		err := fmt.Errorf("injected: timeout after attach of %s", id)
		c.end(call, nil, err)
		return err
	}
	c.end(call, nil, nil)
	return nil
}

func (c *CtrlCloud) DetachNetworkInterface(ctx context.Context, eniID, instanceID, trunkENIID string) error {
	call, f := c.begin("DetachNetworkInterface", eniID, instanceID, 0, 0, nil, true)
	e := c.ENIs[eniID]
	if f.Kind == FaultErrBefore || f.Kind == FaultQuotaENI || f.Kind == FaultVSwExhaust || f.Kind == FaultQuotaIP {
		err := faultErr(f)
		c.end(call, nil, err)
		return err
	}
	if e != nil && !e.Deleted {
		e.Status, e.InstanceID, e.TrunkID = "Available", "", ""
		if e.Type == "Member" {
			e.Type = "Secondary"
		}
	}
	if f.Kind == FaultErrAfter || f.Kind == FaultPartial || f.Kind == FaultHalfCreated {
		err := fmt.Errorf("injected: timeout after detach of %s", eniID)
		c.end(call, nil, err)
		return err
	}
	c.end(call, nil, nil)
	return nil
}

func (c *CtrlCloud) del(eniID string) error {
	call, f := c.begin("DeleteNetworkInterface", eniID, "", 0, 0, nil, true)
	e := c.ENIs[eniID]
	if f.Kind == FaultErrBefore || f.Kind == FaultQuotaENI || f.Kind == FaultVSwExhaust || f.Kind == FaultQuotaIP {
		err := faultErr(f)
		c.end(call, nil, err)
		return err
	}
	if e != nil && !e.Deleted {
		if e.Status != "Available" {
			err := codeErr("InvalidOperation.EniInUse")
			c.end(call, nil, err)
			return err
		}
		e.Deleted = true
		if v := c.VSWs[e.VSW]; v != nil {
			v.Free += int64(len(e.V4) + len(e.V6))
		}
	}
	if f.Kind == FaultErrAfter || f.Kind == FaultPartial || f.Kind == FaultHalfCreated {
		err := fmt.Errorf("injected: timeout after delete of %s", eniID)
		c.end(call, nil, err)
		return err
	}
	c.end(call, nil, nil)
	return nil
}

func (c *CtrlCloud) DeleteNetworkInterface(ctx context.Context, eniID string) error   { return c.del(eniID) }
func (c *CtrlCloud) DeleteNetworkInterfaceV2(ctx context.Context, eniID string) error { return c.del(eniID) }

func (c *CtrlCloud) wait(eniID, status string, ignoreNotExist bool) (*client.NetworkInterface, error) {
	call, _ := c.begin("WaitForNetworkInterface", eniID, "", 0, 0, nil, false)
	e := c.ENIs[eniID]
	if e == nil || e.Deleted {
		var err error
		if ignoreNotExist {
			err = fmt.Errorf("error wait for eni %s: %w", eniID, apiErr.ErrNotFound)
		} else {
			err = fmt.Errorf("error wait for eni %s to status %s: timed out", eniID, status)
		}
		c.end(call, nil, err)
		return nil, err
	}
	if status != "" && e.Status != status {
		err := fmt.Errorf("error wait for eni %s to status %s (is %s): timed out", eniID, status, e.Status)
		c.end(call, nil, err)
		return nil, err
	}
	ni := c.toNI(e)
	c.end(call, nil, nil)
	return ni, nil
}

func (c *CtrlCloud) WaitForNetworkInterface(ctx context.Context, eniID string, status string, backoff wait.Backoff, ignoreNotExist bool) (*client.NetworkInterface, error) {
	return c.wait(eniID, status, ignoreNotExist)
}
func (c *CtrlCloud) WaitForNetworkInterfaceV2(ctx context.Context, eniID string, status string, backoff wait.Backoff, ignoreNotExist bool) (*client.NetworkInterface, error) {
	return c.wait(eniID, status, ignoreNotExist)
}

func (c *CtrlCloud) assign(api, eniID string, n int, v6 bool) ([]client.IPSet, error) {
	n4, n6 := n, 0
	if v6 {
		n4, n6 = 0, n
	}
	call, f := c.begin(api, eniID, "", n4, n6, nil, true)
	e := c.ENIs[eniID]
	if e == nil || e.Deleted {
		err := codeErr("InvalidEniId.NotFound")
		c.end(call, nil, err)
		return nil, err
	}
	call.Instance = e.InstanceID
	if f.Kind == FaultErrBefore || f.Kind == FaultQuotaENI || f.Kind == FaultVSwExhaust || f.Kind == FaultQuotaIP {
		err := faultErr(f)
		c.end(call, nil, err)
		return nil, err
	}
	in := c.Instances[e.InstanceID]
	cur := len(e.V4)
	lim := 0
	if in != nil {
		lim = in.V4PerENI
	}
	if v6 {
		cur = len(e.V6)
		if in != nil {
			lim = in.V6PerENI
		}
	}
	if in != nil && cur+n > lim {
		c.quotaEv = append(c.quotaEv, fmt.Sprintf("%s %d on %s which has %d, limit %d", api, n, eniID, cur, lim))
		code := apiErr.ErrIPv4CountExceeded
		if v6 {
			code = apiErr.ErrIPv6CountExceeded
		}
		err := codeErr(code)
		c.end(call, nil, err)
		return nil, err
	}
	v := c.VSWs[e.VSW]
	if v == nil || v.Free < int64(n) {
		err := codeErr("InvalidVSwitchId.IpNotEnough")
		c.end(call, nil, err)
		return nil, err
	}
	v.Free -= int64(n)
	var out []client.IPSet
	var res []string
	for i := 0; i < n; i++ {
		a := c.newAddr(v, v6)
		if v6 {
			e.V6 = append(e.V6, a)
		} else {
			e.V4 = append(e.V4, a)
		}
		c.issued[a] = e.ID
		out = append(out, client.IPSet{IPAddress: a})
		res = append(res, a)
	}
	if f.Kind == FaultErrAfter || f.Kind == FaultPartial || f.Kind == FaultHalfCreated {
		err := fmt.Errorf("injected: timeout after %s on %s", api, eniID)
		c.end(call, res, err)
		return nil, err
	}
	c.end(call, res, nil)
	return out, nil
}

func (c *CtrlCloud) AssignPrivateIPAddressV2(ctx context.Context, opts ...client.AssignPrivateIPAddressOption) ([]client.IPSet, error) {
	o := &client.AssignPrivateIPAddressOptions{}
	for _, x := range opts {
		x.ApplyAssignPrivateIPAddress(o)
	}
	return c.assign("AssignPrivateIpAddresses", o.NetworkInterfaceOptions.NetworkInterfaceID, o.NetworkInterfaceOptions.IPCount, false)
}

func (c *CtrlCloud) AssignIpv6AddressesV2(ctx context.Context, opts ...client.AssignIPv6AddressesOption) ([]client.IPSet, error) {
	o := &client.AssignIPv6AddressesOptions{}
	for _, x := range opts {
		x.ApplyAssignIPv6Addresses(o)
	}
	return c.assign("AssignIpv6Addresses", o.NetworkInterfaceOptions.NetworkInterfaceID, o.NetworkInterfaceOptions.IPv6Count, true)
}

func (c *CtrlCloud) unassign(api, eniID string, ips []string, v6 bool) error {
	call, f := c.begin(api, eniID, "", 0, 0, ips, true)
	e := c.ENIs[eniID]
	if e != nil {
		call.Instance = e.InstanceID
	}
	if f.Kind == FaultErrBefore || f.Kind == FaultQuotaENI || f.Kind == FaultVSwExhaust || f.Kind == FaultQuotaIP {
		err := faultErr(f)
		c.end(call, nil, err)
		return err
	}
	if e != nil && !e.Deleted {
		rm := map[string]bool{}
		for _, a := range ips {
			if a == e.Primary {
				c.quotaEv = append(c.quotaEv, "unassign of primary address "+a)
				continue
			}
			rm[a] = true
		}
		keep := func(l []string) []string {
			var o []string
			for _, a := range l {
				if !rm[a] {
					o = append(o, a)
				} else if v := c.VSWs[e.VSW]; v != nil {
					v.Free++
				}
			}
			return o
		}
		if v6 {
			e.V6 = keep(e.V6)
		} else {
			e.V4 = keep(e.V4)
		}
	}
	if f.Kind == FaultErrAfter || f.Kind == FaultPartial || f.Kind == FaultHalfCreated {
		err := fmt.Errorf("injected: timeout after %s on %s", api, eniID)
		c.end(call, nil, err)
		return err
	}
	c.end(call, nil, nil)
	return nil
}

func ipsetAddrs(ips []client.IPSet) []string {
	var o []string
	for _, x := range ips {
		o = append(o, x.IPAddress)
	}
	return o
}

func (c *CtrlCloud) UnAssignPrivateIPAddressesV2(ctx context.Context, eniID string, ips []client.IPSet) error {
	return c.unassign("UnAssignPrivateIpAddresses", eniID, ipsetAddrs(ips), false)
}
func (c *CtrlCloud) UnAssignIpv6AddressesV2(ctx context.Context, eniID string, ips []client.IPSet) error {
	return c.unassign("UnAssignIpv6Addresses", eniID, ipsetAddrs(ips), true)
}

// old ECS-interface variants (netip based)
func (c *CtrlCloud) AssignPrivateIPAddress(ctx context.Context, opts ...client.AssignPrivateIPAddressOption) ([]netip.Addr, error) {
	r, err := c.AssignPrivateIPAddressV2(ctx, opts...)
	var o []netip.Addr
	for _, x := range r {
		o = append(o, netip.MustParseAddr(x.IPAddress))
	}
	return o, err
}
func (c *CtrlCloud) AssignIpv6Addresses(ctx context.Context, opts ...client.AssignIPv6AddressesOption) ([]netip.Addr, error) {
	r, err := c.AssignIpv6AddressesV2(ctx, opts...)
	var o []netip.Addr
	for _, x := range r {
		o = append(o, netip.MustParseAddr(x.IPAddress))
	}
	return o, err
}
func (c *CtrlCloud) UnAssignPrivateIPAddresses(ctx context.Context, eniID string, ips []netip.Addr) error {
	var s []string
	for _, a := range ips {
		s = append(s, a.String())
	}
	return c.unassign("UnAssignPrivateIpAddresses", eniID, s, false)
}
func (c *CtrlCloud) UnAssignIpv6Addresses(ctx context.Context, eniID string, ips []netip.Addr) error {
	var s []string
	for _, a := range ips {
		s = append(s, a.String())
	}
	return c.unassign("UnAssignIpv6Addresses", eniID, s, true)
}

func (c *CtrlCloud) DescribeInstanceTypes(ctx context.Context, types []string) ([]ecs.InstanceType, error) {
	c.mu.Lock()
	defer c.mu.Unlock()
	var out []ecs.InstanceType
	for _, t := range types {
		if it, ok := c.ITypes[t]; ok {
			out = append(out, it)
		}
	}
	return out, nil
}

// ---------- VPC / EFLO ----------

func (c *CtrlCloud) DescribeVSwitchByID(ctx context.Context, id string) (*vpc.VSwitch, error) {
	c.mu.Lock()
	defer c.mu.Unlock()
	v := c.VSWs[id]
	if v == nil {
		return nil, fmt.Errorf("InvalidVSwitchId.NotFound %s", id)
	}
	return &vpc.VSwitch{VSwitchId: v.ID, ZoneId: v.Zone, AvailableIpAddressCount: v.Free, CidrBlock: v.CIDR4, Ipv6CidrBlock: v.CIDR6}, nil
}

func (c *CtrlCloud) GetNodeInfoForPod(ctx context.Context, nodeID string) (*eflo.Content, error) {
	return &eflo.Content{LeniQuota: 4, LniSipQuota: 10}, nil
}

// ---------- harness side ----------

type CSnapshot struct {
	ENIs map[string]CENI
}

func (c *CtrlCloud) Snapshot() CSnapshot {
	c.mu.Lock()
	defer c.mu.Unlock()
	return c.SnapshotLocked()
}

func (c *CtrlCloud) SnapshotLocked() CSnapshot {
	s := CSnapshot{ENIs: map[string]CENI{}}
	for id, e := range c.ENIs {
		cp := *e
		cp.V4 = append([]string(nil), e.V4...)
		cp.V6 = append([]string(nil), e.V6...)
		cp.Tags = map[string]string{}
		for k, v := range e.Tags {
			cp.Tags[k] = v
		}
		s.ENIs[id] = cp
	}
	return s
}

// VSWFree returns the free address count per vSwitch.
func (c *CtrlCloud) VSWFree() map[string]int64 {
	c.mu.Lock()
	defer c.mu.Unlock()
	out := map[string]int64{}
	for id, v := range c.VSWs {
		out[id] = v.Free
	}
	return out
}

func (c *CtrlCloud) Calls() []CCall {
	c.mu.Lock()
	defer c.mu.Unlock()
	out := make([]CCall, len(c.calls))
	for i, x := range c.calls {
		out[i] = *x
	}
	return out
}

func (c *CtrlCloud) MutatingCalls() int { c.mu.Lock(); defer c.mu.Unlock(); return c.mutating }

func (c *CtrlCloud) QuotaEvents() []string {
	c.mu.Lock()
	defer c.mu.Unlock()
	return append([]string(nil), c.quotaEv...)
}

// Mutate lets a workload change cloud state behind terway's back (drift, foreign ENIs, middle states).
func (c *CtrlCloud) Mutate(f func(c *CtrlCloud)) {
	c.mu.Lock()
	defer c.mu.Unlock()
	f(c)
}

// InjectENI adds an interface that terway did not create (call inside Mutate or before use).
func (c *CtrlCloud) InjectENI(e *CENI) *CENI {
	c.nextENI++
	if e.ID == "" {
		e.ID = fmt.Sprintf("eni-x%04d", c.nextENI)
	}
	if e.MAC == "" {
		e.MAC = fmt.Sprintf("00:16:3e:02:%02x:%02x", c.nextENI>>8, c.nextENI&0xff)
	}
	if e.Tags == nil {
		e.Tags = map[string]string{}
	}
	if v := c.VSWs[e.VSW]; v != nil && len(e.V4) == 0 {
		a := c.newAddr(v, false)
		e.V4, e.Primary = []string{a}, a
		e.Zone = v.Zone
	}
	c.ENIs[e.ID] = e
	return e
}

func (c *CtrlCloud) IssuedTo(addr string) string {
	c.mu.Lock()
	defer c.mu.Unlock()
	return c.issued[addr]
}
