// Package cloudsim is the simulated Alibaba cloud. This file: the node-level view behind
// factory.Factory (what pkg/factory/aliyun offers to the daemon's local pool), with a call
// log, a per-history fault plan and listener hooks for the monitors.
//
// Values are never re-issued inside one Cloud: ENI ids, MACs and addresses are unique per
// creation, so every value identifies the cloud operation that produced it.
package cloudsim

import (
	"fmt"
	"math/rand"
	"net/netip"
	"sort"
	"sync"
	"time"

	sdkErr "github.com/aliyun/alibaba-cloud-sdk-go/sdk/errors"

	"github.com/AliyunContainerService/terway/types"
	"github.com/AliyunContainerService/terway/types/daemon"
)

type FaultKind string

const (
	FaultNone        FaultKind = "ok"
	FaultErrBefore   FaultKind = "err-before"   // nothing happened in the cloud
	FaultErrAfter    FaultKind = "err-after"    // effect applied, error returned together with what was created (attach / metadata / describe failure after creation)
	FaultPartial     FaultKind = "partial"      // j of n addresses assigned and reported, plus error
	FaultQuotaENI    FaultKind = "quota-eni"    // EniPerInstanceLimitExceeded, no effect
	FaultVSwExhaust  FaultKind = "vsw-exhaust"  // InvalidVSwitchId.IpNotEnough, no effect
	FaultQuotaIP     FaultKind = "quota-ip"     // QuotaExceeded.PrivateIpAddress, no effect
	FaultHalfCreated FaultKind = "half-created" // create: ENI exists (returned with nil address lists) + error
)

// Fault for the k-th call (1-based, counted over all mutating factory calls of the history).
type Fault struct {
	Kind   FaultKind
	DelayA time.Duration // before the effect (the daemon's lock is not held here)
	DelayB time.Duration // after the effect, before returning
}

type ENI struct {
	ID, MAC  string
	Type     string // secondary | trunk | erdma
	Primary  netip.Addr
	V4, V6   map[netip.Addr]bool // currently assigned (incl. primary in V4)
	Attached bool
	Deleted  bool
}

type Call struct {
	Seq      int64
	API      string
	ENI      string
	N4, N6   int
	IPs      []netip.Addr
	Fault    FaultKind
	Err      string
	Result   []netip.Addr
	TCall    int64
	TRet     int64
	Mutating bool
}

// Listener is called with the cloud lock held; it must not call back into Cloud.
type Listener interface {
	OnInvoke(c *Cloud, call *Call) // before any delay/effect
	OnReturn(c *Cloud, call *Call) // after the effect, before returning to the daemon
}

type Cloud struct {
	mu         sync.Mutex
	Now        func() int64 // logical clock shared with the monitors
	MaxENI     int          // instance quota of secondary interfaces (incl. trunk/erdma)
	Cap        int          // addresses per interface
	V4, V6     bool
	enis       map[string]*ENI
	order      []string
	nextENI    int
	nextV4     uint32
	nextV6     uint64
	calls      []*Call
	mutating   int
	Plan       map[int]Fault // by mutating-call index
	DefDelay   func() (time.Duration, time.Duration)
	lis        Listener
	everV4     map[netip.Addr]string           // address -> eni that it was issued to
	inflight   map[string]int                  // api -> in flight
	Stopped    bool                            // faults off
	quotaEv    []string                        // cloud-side detector: requests that would exceed a limit
	Rng        *rand.Rand                      // per-history PRNG (used under mu)
	MACFor     func(n int) (string, bool)      // optional: MAC of the n-th created interface (C09 uses the MAC of a kernel device)
	PreDelete  func(eniID string)              // called with no lock held right before a DeleteNetworkInterface is logged
	PostMutate func(api string, locked *Cloud) // called under the lock after a mutating call's effect
	subnet4    netip.Prefix
	subnet6    netip.Prefix
}

func NewCloud(now func() int64, maxENI, cap int, v4, v6 bool) *Cloud {
	return &Cloud{Now: now, MaxENI: maxENI, Cap: cap, V4: v4, V6: v6, enis: map[string]*ENI{}, Plan: map[int]Fault{}, everV4: map[netip.Addr]string{}, inflight: map[string]int{},
		nextV4: 10, nextV6: 16, subnet4: netip.MustParsePrefix("10.0.0.0/16"), subnet6: netip.MustParsePrefix("fd00::/64")}
}

func (c *Cloud) rnd(n int) int {
	if c.Rng == nil {
		c.Rng = rand.New(rand.NewSource(1))
	}
	return c.Rng.Intn(n)
}

func (c *Cloud) SetListener(l Listener) { c.mu.Lock(); c.lis = l; c.mu.Unlock() }

func (c *Cloud) StopFaults() { c.mu.Lock(); c.Stopped = true; c.mu.Unlock() }

func (c *Cloud) newV4() netip.Addr {
	c.nextV4++
	return netip.AddrFrom4([4]byte{10, 0, byte(c.nextV4 >> 8), byte(c.nextV4)})
}

func (c *Cloud) newV6() netip.Addr {
	c.nextV6++
	b := netip.MustParseAddr("fd00::").As16()
	for i := 0; i < 8; i++ {
		b[15-i] = byte(c.nextV6 >> (8 * uint(i)))
	}
	return netip.AddrFrom16(b)
}

func (c *Cloud) daemonENI(e *ENI) *daemon.ENI {
	d := &daemon.ENI{ID: e.ID, MAC: e.MAC, Trunk: e.Type == "trunk", ERdma: e.Type == "erdma", VSwitchID: "vsw-1"}
	d.PrimaryIP.SetIP(e.Primary.String())
	d.VSwitchCIDR.SetIPNet(c.subnet4.String())
	d.GatewayIP.SetIP("10.0.255.253")
	if c.V6 {
		d.VSwitchCIDR.SetIPNet(c.subnet6.String())
		d.GatewayIP.SetIP("fd00::ffff:ffff:ffff:fffd")
	}
	return d
}

// Preattach creates an attached interface with n4/n6 addresses without going through the log (initial state).
func (c *Cloud) Preattach(typ string, n4, n6 int) *daemon.ENI {
	c.mu.Lock()
	defer c.mu.Unlock()
	e := c.createLocked(typ, n4, n6)
	return c.daemonENI(e)
}

func (c *Cloud) createLocked(typ string, n4, n6 int) *ENI {
	c.nextENI++
	mac := fmt.Sprintf("00:16:3e:00:%02x:%02x", c.nextENI>>8, c.nextENI&0xff)
	if c.MACFor != nil {
		if m, ok := c.MACFor(c.nextENI); ok {
			mac = m
		}
	}
	e := &ENI{ID: fmt.Sprintf("eni-%03d", c.nextENI), MAC: mac, Type: typ, V4: map[netip.Addr]bool{}, V6: map[netip.Addr]bool{}, Attached: true}
	if n4 < 1 {
		n4 = 1
	}
	for i := 0; i < n4; i++ {
		a := c.newV4()
		if i == 0 {
			e.Primary = a
		}
		e.V4[a] = true
		c.everV4[a] = e.ID
	}
	for i := 0; i < n6; i++ {
		a := c.newV6()
		e.V6[a] = true
		c.everV4[a] = e.ID
	}
	c.enis[e.ID] = e
	c.order = append(c.order, e.ID)
	return e
}

func codeErr(code string) error {
	return sdkErr.NewServerError(400, fmt.Sprintf(`{"Code":"%s","Message":"injected %s","RequestId":"sim"}`, code, code), "")
}

func (c *Cloud) begin(api, eni string, n4, n6 int, ips []netip.Addr, mutating bool) (*Call, Fault) {
	c.mu.Lock()
	call := &Call{Seq: int64(len(c.calls) + 1), API: api, ENI: eni, N4: n4, N6: n6, IPs: append([]netip.Addr(nil), ips...), TCall: c.Now(), Mutating: mutating}
	c.calls = append(c.calls, call)
	var f Fault
	if mutating {
		c.mutating++
		if !c.Stopped {
			f = c.Plan[c.mutating]
		}
		if c.DefDelay != nil && f.DelayA == 0 && f.DelayB == 0 {
			f.DelayA, f.DelayB = c.DefDelay()
		}
	}
	if f.Kind == "" {
		f.Kind = FaultNone
	}
	call.Fault = f.Kind
	c.inflight[api]++
	if c.lis != nil {
		c.lis.OnInvoke(c, call)
	}
	c.mu.Unlock()
	if f.DelayA > 0 {
		time.Sleep(f.DelayA)
	}
	return call, f
}

func (c *Cloud) end(call *Call, f Fault, res []netip.Addr, err error) {
	call.Result = res
	if err != nil {
		call.Err = err.Error()
	}
	call.TRet = c.Now()
	c.inflight[call.API]--
	if c.lis != nil {
		c.lis.OnReturn(c, call)
	}
	if call.Mutating && c.PostMutate != nil {
		c.PostMutate(call.API, c)
	}
	c.mu.Unlock()
	if f.DelayB > 0 {
		time.Sleep(f.DelayB)
	}
}

func (c *Cloud) attachedLocked() int {
	n := 0
	for _, e := range c.enis {
		if e.Attached && !e.Deleted {
			n++
		}
	}
	return n
}

// ---- factory.Factory ----

func (c *Cloud) CreateNetworkInterface(ipv4, ipv6 int, eniType string) (*daemon.ENI, []netip.Addr, []netip.Addr, error) {
	call, f := c.begin("Create", "", ipv4, ipv6, nil, true)
	c.mu.Lock()
	if ipv4 > c.Cap || ipv6 > c.Cap {
		c.quotaEv = append(c.quotaEv, fmt.Sprintf("create with %d/%d addresses, cap %d", ipv4, ipv6, c.Cap))
	}
	if c.attachedLocked() >= c.MaxENI {
		c.quotaEv = append(c.quotaEv, fmt.Sprintf("create while %d interfaces attached, quota %d", c.attachedLocked(), c.MaxENI))
		err := codeErr("EniPerInstanceLimitExceeded")
		c.end(call, f, nil, err)
		return nil, nil, nil, err
	}
	switch f.Kind {
	case FaultErrBefore:
		err := codeErr("InternalError")
		c.end(call, f, nil, err)
		return nil, nil, nil, err
	case FaultQuotaENI:
		err := codeErr("EniPerInstanceLimitExceeded")
		c.end(call, f, nil, err)
		return nil, nil, nil, err
	case FaultVSwExhaust:
		err := codeErr("InvalidVSwitchId.IpNotEnough")
		c.end(call, f, nil, err)
		return nil, nil, nil, err
	case FaultQuotaIP:
		err := codeErr("QuotaExceeded.PrivateIpAddress")
		c.end(call, f, nil, err)
		return nil, nil, nil, err
	}
	if !c.V6 {
		ipv6 = 0
	}
	e := c.createLocked(eniType, ipv4, ipv6)
	call.ENI = e.ID
	d := c.daemonENI(e)
	v4, v6 := sortedAddrs(e.V4), sortedAddrs(e.V6)
	switch f.Kind {
	case FaultHalfCreated:
		err := fmt.Errorf("injected: attach failed for %s", e.ID)
		e.Attached = c.rnd(2) == 0 // attach itself may or may not have happened
		c.end(call, f, nil, err)
		return d, nil, nil, err
	case FaultErrAfter, FaultPartial:
		err := fmt.Errorf("injected: eni %s not InUse yet", e.ID)
		c.end(call, f, append(append([]netip.Addr{}, v4...), v6...), err)
		return d, v4, v6, err
	}
	c.end(call, f, append(append([]netip.Addr{}, v4...), v6...), nil)
	return d, v4, v6, nil
}

func (c *Cloud) assign(api, eniID string, count int, v6 bool) ([]netip.Addr, error) {
	n4, n6 := count, 0
	if v6 {
		n4, n6 = 0, count
	}
	call, f := c.begin(api, eniID, n4, n6, nil, true)
	c.mu.Lock()
	e := c.enis[eniID]
	if e == nil || e.Deleted {
		err := codeErr("InvalidEniId.NotFound")
		c.end(call, f, nil, err)
		return nil, err
	}
	set := e.V4
	if v6 {
		set = e.V6
	}
	if len(set)+count > c.Cap {
		c.quotaEv = append(c.quotaEv, fmt.Sprintf("%s %d on %s holding %d, cap %d", api, count, eniID, len(set), c.Cap))
		err := codeErr("InvalidOperation.Ipv4CountExceeded")
		c.end(call, f, nil, err)
		return nil, err
	}
	switch f.Kind {
	case FaultErrBefore:
		err := codeErr("InternalError")
		c.end(call, f, nil, err)
		return nil, err
	case FaultVSwExhaust:
		err := codeErr("InvalidVSwitchId.IpNotEnough")
		c.end(call, f, nil, err)
		return nil, err
	case FaultQuotaIP, FaultQuotaENI:
		err := codeErr("QuotaExceeded.PrivateIpAddress")
		c.end(call, f, nil, err)
		return nil, err
	}
	n := count
	if f.Kind == FaultPartial && count > 1 {
		n = 1 + c.rnd(count-1)
	}
	var out []netip.Addr
	for i := 0; i < n; i++ {
		var a netip.Addr
		if v6 {
			a = c.newV6()
		} else {
			a = c.newV4()
		}
		set[a] = true
		c.everV4[a] = e.ID
		out = append(out, a)
	}
	switch f.Kind {
	case FaultPartial, FaultErrAfter, FaultHalfCreated:
		err := fmt.Errorf("injected: addresses %v not visible in metadata in time", out)
		c.end(call, f, out, err)
		return out, err
	}
	c.end(call, f, out, nil)
	return out, nil
}

func (c *Cloud) AssignNIPv4(eniID string, count int, mac string) ([]netip.Addr, error) {
	return c.assign("AssignV4", eniID, count, false)
}
func (c *Cloud) AssignNIPv6(eniID string, count int, mac string) ([]netip.Addr, error) {
	return c.assign("AssignV6", eniID, count, true)
}

func (c *Cloud) unassign(api, eniID string, ips []netip.Addr, v6 bool) error {
	call, f := c.begin(api, eniID, 0, 0, ips, true)
	c.mu.Lock()
	e := c.enis[eniID]
	if f.Kind == FaultErrBefore || f.Kind == FaultQuotaENI || f.Kind == FaultQuotaIP || f.Kind == FaultVSwExhaust {
		err := codeErr("InternalError")
		c.end(call, f, nil, err)
		return err
	}
	if e != nil && !e.Deleted {
		set := e.V4
		if v6 {
			set = e.V6
		}
		for _, a := range ips {
			if a == e.Primary {
				c.quotaEv = append(c.quotaEv, "unassign of primary address "+a.String())
				continue
			}
			delete(set, a) // unassigning an absent address is a success, as the real client treats it
		}
	}
	if f.Kind == FaultErrAfter || f.Kind == FaultPartial || f.Kind == FaultHalfCreated {
		err := fmt.Errorf("injected: timeout after unassign")
		c.end(call, f, nil, err)
		return err
	}
	c.end(call, f, nil, nil)
	return nil
}

func (c *Cloud) UnAssignNIPv4(eniID string, ips []netip.Addr, mac string) error {
	return c.unassign("UnAssignV4", eniID, ips, false)
}
func (c *Cloud) UnAssignNIPv6(eniID string, ips []netip.Addr, mac string) error {
	return c.unassign("UnAssignV6", eniID, ips, true)
}

func (c *Cloud) DeleteNetworkInterface(eniID string) error {
	if c.PreDelete != nil {
		c.PreDelete(eniID)
	}
	call, f := c.begin("Delete", eniID, 0, 0, nil, true)
	c.mu.Lock()
	e := c.enis[eniID]
	switch f.Kind {
	case FaultErrBefore, FaultQuotaENI, FaultQuotaIP, FaultVSwExhaust:
		err := codeErr("InternalError")
		c.end(call, f, nil, err)
		return err
	case FaultHalfCreated, FaultPartial: // detached, delete failed
		if e != nil {
			e.Attached = false
		}
		err := fmt.Errorf("injected: delete failed after detach")
		c.end(call, f, nil, err)
		return err
	}
	if e != nil {
		e.Attached = false
		e.Deleted = true
	}
	if f.Kind == FaultErrAfter {
		err := fmt.Errorf("injected: timeout after delete")
		c.end(call, f, nil, err)
		return err
	}
	c.end(call, f, nil, nil)
	return nil
}

func (c *Cloud) LoadNetworkInterface(mac string) ([]netip.Addr, []netip.Addr, error) {
	call, f := c.begin("Load", "", 0, 0, nil, false)
	c.mu.Lock()
	var e *ENI
	for _, x := range c.enis {
		if x.MAC == mac {
			e = x
		}
	}
	if e == nil || e.Deleted {
		err := fmt.Errorf("metadata: mac %s not found", mac)
		c.end(call, f, nil, err)
		return nil, nil, err
	}
	call.ENI = e.ID
	var v4, v6 []netip.Addr
	if c.V4 {
		v4 = sortedAddrs(e.V4)
	}
	if c.V6 {
		v6 = sortedAddrs(e.V6)
	}
	c.end(call, f, append(append([]netip.Addr{}, v4...), v6...), nil)
	return v4, v6, nil
}

func (c *Cloud) GetAttachedNetworkInterface(preferTrunkID string) ([]*daemon.ENI, error) {
	c.mu.Lock()
	defer c.mu.Unlock()
	var out []*daemon.ENI
	for _, id := range c.order {
		e := c.enis[id]
		if e.Attached && !e.Deleted {
			out = append(out, c.daemonENI(e))
		}
	}
	return out, nil
}

// ---- hostile / inspection API (harness side) ----

// RemoveAddress removes an address behind the daemon's back. Returns false if absent or primary.
func (c *Cloud) RemoveAddress(a netip.Addr) bool {
	c.mu.Lock()
	defer c.mu.Unlock()
	for _, e := range c.enis {
		if e.Deleted || a == e.Primary {
			continue
		}
		if e.V4[a] {
			delete(e.V4, a)
			return true
		}
		if e.V6[a] {
			delete(e.V6, a)
			return true
		}
	}
	return false
}

type Snapshot struct {
	ENIs map[string]ENISnap
}
type ENISnap struct {
	ID, MAC, Type string
	Primary       netip.Addr
	V4, V6        []netip.Addr
	Attached      bool
	Deleted       bool
}

func (c *Cloud) Snapshot() Snapshot {
	c.mu.Lock()
	defer c.mu.Unlock()
	return c.snapshotLocked()
}

func (c *Cloud) snapshotLocked() Snapshot {
	s := Snapshot{ENIs: map[string]ENISnap{}}
	for id, e := range c.enis {
		s.ENIs[id] = ENISnap{ID: id, MAC: e.MAC, Type: e.Type, Primary: e.Primary, V4: sortedAddrs(e.V4), V6: sortedAddrs(e.V6), Attached: e.Attached, Deleted: e.Deleted}
	}
	return s
}

// SnapshotLocked is for listeners (cloud lock already held).
func (c *Cloud) SnapshotLocked() Snapshot { return c.snapshotLocked() }

// CountLocked: addresses currently on an interface (listener use).
func (c *Cloud) CountLocked(eni string, v6 bool) int {
	e := c.enis[eni]
	if e == nil {
		return 0
	}
	if v6 {
		return len(e.V6)
	}
	return len(e.V4)
}

func (c *Cloud) ENILocked(eni string) *ENI { return c.enis[eni] }

func (c *Cloud) AttachedLocked() int { return c.attachedLocked() }

func (c *Cloud) InflightLocked(api string) int { return c.inflight[api] }

func (c *Cloud) EverIssued(a netip.Addr) (string, bool) {
	c.mu.Lock()
	defer c.mu.Unlock()
	e, ok := c.everV4[a]
	return e, ok
}

func (c *Cloud) Calls() []Call {
	c.mu.Lock()
	defer c.mu.Unlock()
	out := make([]Call, len(c.calls))
	for i, x := range c.calls {
		out[i] = *x
	}
	return out
}

func (c *Cloud) InflightTotal() int {
	c.mu.Lock()
	defer c.mu.Unlock()
	n := 0
	for _, v := range c.inflight {
		n += v
	}
	return n
}

func (c *Cloud) MutatingCalls() int { c.mu.Lock(); defer c.mu.Unlock(); return c.mutating }

func (c *Cloud) QuotaEvents() []string {
	c.mu.Lock()
	defer c.mu.Unlock()
	return append([]string(nil), c.quotaEv...)
}

func sortedAddrs(m map[netip.Addr]bool) []netip.Addr {
	out := make([]netip.Addr, 0, len(m))
	for a := range m {
		out = append(out, a)
	}
	sort.Slice(out, func(i, j int) bool { return out[i].Less(out[j]) })
	return out
}

var _ = types.IPSet{}

// Clone returns an independent deep copy of the cloud's state (no listener, no fault plan,
// empty call log): the cloud as a restarted daemon would find it.
func (c *Cloud) Clone(now func() int64) *Cloud {
	c.mu.Lock()
	defer c.mu.Unlock()
	return c.CloneLocked(now)
}

// CloneLocked is Clone for callers that already hold the cloud lock (listeners).
func (c *Cloud) CloneLocked(now func() int64) *Cloud {
	n := NewCloud(now, c.MaxENI, c.Cap, c.V4, c.V6)
	n.nextENI, n.nextV4, n.nextV6 = c.nextENI, c.nextV4, c.nextV6
	n.Stopped = true
	n.order = append([]string(nil), c.order...)
	for id, e := range c.enis {
		ne := &ENI{ID: e.ID, MAC: e.MAC, Type: e.Type, Primary: e.Primary, V4: map[netip.Addr]bool{}, V6: map[netip.Addr]bool{}, Attached: e.Attached, Deleted: e.Deleted}
		for a := range e.V4 {
			ne.V4[a] = true
		}
		for a := range e.V6 {
			ne.V6[a] = true
		}
		n.enis[id] = ne
	}
	for a, e := range c.everV4 {
		n.everV4[a] = e
	}
	n.Rng = rand.New(rand.NewSource(int64(c.nextV4)*131 + int64(c.nextENI)))
	return n
}
