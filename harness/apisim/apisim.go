// Package apisim builds the simulated API server: controller-runtime's fake client configured
// like terway's cluster (CRDs with status subresource, pod index on spec.nodeName), with an
// interceptor layer for latency, faults, fidelity fixes and an observer of every write.
package apisim

import (
	"context"
	"fmt"
	"sync"
	"sync/atomic"

	corev1 "k8s.io/api/core/v1"
	apierrors "k8s.io/apimachinery/pkg/api/errors"
	"k8s.io/apimachinery/pkg/fields"
	"k8s.io/apimachinery/pkg/runtime"
	"k8s.io/apimachinery/pkg/runtime/schema"
	k8stypes "k8s.io/apimachinery/pkg/types"
	"sigs.k8s.io/controller-runtime/pkg/client"
	"sigs.k8s.io/controller-runtime/pkg/client/fake"
	"sigs.k8s.io/controller-runtime/pkg/client/interceptor"

	"github.com/AliyunContainerService/terway/pkg/apis/network.alibabacloud.com/v1beta1"
	"github.com/AliyunContainerService/terway/types"
)

// Hooks lets a workload observe and perturb API calls. All funcs optional; they run outside
// any apisim lock. Returning a non-nil error from a Before* hook fails the call before effect;
// After* hooks run after the effect was applied (their error models "timeout after effect").
type Hooks struct {
	mu           sync.Mutex
	BeforeGet    func(ctx context.Context, key client.ObjectKey, obj client.Object) error
	AfterGet     func(ctx context.Context, key client.ObjectKey, obj client.Object, err error) // after the read, with its result
	BeforeList   func(ctx context.Context, list client.ObjectList) error
	BeforeWrite  func(ctx context.Context, verb string, obj client.Object) error // create/update/patch/delete/status-update/status-patch
	AfterWrite   func(ctx context.Context, verb string, obj client.Object) error
	ObserveWrite func(verb string, before, after client.Object) // after a successful write, before==nil for create, after==nil once the object is gone
	// NotYetCached: reads that ask for resourceVersion=0 are answered from the API server's watch cache, which may not
	// hold a recent object yet; a pod for which this returns true is invisible to such reads (Get: NotFound, List: absent)
	NotYetCached func(pod *corev1.Pod) bool
}

var uidSeq atomic.Int64

func (h *Hooks) get() Hooks {
	h.mu.Lock()
	defer h.mu.Unlock()
	return Hooks{BeforeGet: h.BeforeGet, AfterGet: h.AfterGet, BeforeList: h.BeforeList, BeforeWrite: h.BeforeWrite, AfterWrite: h.AfterWrite, ObserveWrite: h.ObserveWrite, NotYetCached: h.NotYetCached}
}

// Set replaces hooks atomically.
func (h *Hooks) Set(f func(h *Hooks)) {
	h.mu.Lock()
	defer h.mu.Unlock()
	f(h)
}

func Scheme() *runtime.Scheme { return types.Scheme }

// New returns a client over a fresh fake API server holding objs.
func New(hooks *Hooks, objs ...client.Object) client.WithWatch {
	if hooks == nil {
		hooks = &Hooks{}
	}
	b := fake.NewClientBuilder().WithScheme(types.Scheme).
		WithStatusSubresource(&v1beta1.Node{}, &v1beta1.NodeRuntime{}, &v1beta1.PodENI{}, &v1beta1.PodNetworking{}, &corev1.Pod{}, &corev1.Node{}).
		WithIndex(&corev1.Pod{}, "spec.nodeName", func(o client.Object) []string {
			return []string{o.(*corev1.Pod).Spec.NodeName}
		}).
		WithObjects(objs...)
	snapshot := func(ctx context.Context, c client.WithWatch, obj client.Object) client.Object {
		cur := obj.DeepCopyObject().(client.Object)
		if err := c.Get(ctx, client.ObjectKeyFromObject(obj), cur); err != nil {
			return nil
		}
		return cur
	}
	write := func(ctx context.Context, c client.WithWatch, verb string, obj client.Object, do func() error) error {
		h := hooks.get()
		if h.BeforeWrite != nil {
			if err := h.BeforeWrite(ctx, verb, obj); err != nil {
				return err
			}
		}
		var before client.Object
		if h.ObserveWrite != nil && verb != "create" {
			before = snapshot(ctx, c, obj)
		}
		// fidelity: a real API server rejects an update whose metadata.uid is not the stored object's (the
		// name was reused by a new object); the fake client compares resourceVersions only, and those restart
		// at 1 for every new object
		if verb == "update" || verb == "status-update" {
			if cur := snapshot(ctx, c, obj); cur != nil && obj.GetUID() != "" && cur.GetUID() != "" && obj.GetUID() != cur.GetUID() {
				return apierrors.NewConflict(schema.GroupResource{Resource: "objects"}, obj.GetName(), fmt.Errorf("Precondition failed: UID in precondition: %s, UID in object meta: %s", obj.GetUID(), cur.GetUID()))
			}
		}
		if err := do(); err != nil {
			return err
		}
		if h.ObserveWrite != nil {
			// (a delete of an object that carries finalizers leaves it in place with a deletionTimestamp; an
			// update that removes the last finalizer of such an object removes it: after is nil then)
			after := snapshot(ctx, c, obj)
			h.ObserveWrite(verb, before, after)
		}
		if h.AfterWrite != nil {
			if err := h.AfterWrite(ctx, verb, obj); err != nil {
				return err
			}
		}
		return nil
	}
	b = b.WithInterceptorFuncs(interceptor.Funcs{
		Get: func(ctx context.Context, c client.WithWatch, key client.ObjectKey, obj client.Object, opts ...client.GetOption) error {
			if h := hooks.get(); h.BeforeGet != nil {
				if err := h.BeforeGet(ctx, key, obj); err != nil {
					return err
				}
			}
			err := c.Get(ctx, key, obj, opts...)
			if h := hooks.get(); err == nil && h.NotYetCached != nil {
				geto := &client.GetOptions{}
				geto.ApplyOptions(opts)
				if pod, ok := obj.(*corev1.Pod); ok && geto.Raw != nil && geto.Raw.ResourceVersion == "0" && h.NotYetCached(pod) {
					err = apierrors.NewNotFound(schema.GroupResource{Resource: "pods"}, key.Name)
				}
			}
			if h := hooks.get(); h.AfterGet != nil {
				h.AfterGet(ctx, key, obj, err)
			}
			return err
		},
		List: func(ctx context.Context, c client.WithWatch, list client.ObjectList, opts ...client.ListOption) error {
			if h := hooks.get(); h.BeforeList != nil {
				if err := h.BeforeList(ctx, list); err != nil {
					return err
				}
			}
			if err := c.List(ctx, list, opts...); err != nil {
				return err
			}
			// fidelity: the fake client ignores ListOptions.Raw; a real API server honours its field selector
			lo := &client.ListOptions{}
			lo.ApplyOptions(opts)
			if h := hooks.get(); h.NotYetCached != nil && lo.Raw != nil && lo.Raw.ResourceVersion == "0" {
				if pl, ok := list.(*corev1.PodList); ok {
					kept := pl.Items[:0]
					for i := range pl.Items {
						if !h.NotYetCached(&pl.Items[i]) {
							kept = append(kept, pl.Items[i])
						}
					}
					pl.Items = kept
				}
			}
			if lo.Raw != nil && lo.Raw.FieldSelector != "" {
				if pl, ok := list.(*corev1.PodList); ok {
					sel, err := fields.ParseSelector(lo.Raw.FieldSelector)
					if err != nil {
						return err
					}
					kept := pl.Items[:0]
					for _, p := range pl.Items {
						if sel.Matches(fields.Set{"spec.nodeName": p.Spec.NodeName, "metadata.name": p.Name, "metadata.namespace": p.Namespace, "status.phase": string(p.Status.Phase)}) {
							kept = append(kept, p)
						}
					}
					pl.Items = kept
				}
			}
			return nil
		},
		Create: func(ctx context.Context, c client.WithWatch, obj client.Object, opts ...client.CreateOption) error {
			return write(ctx, c, "create", obj, func() error {
				// fidelity: a real API server drops .status on create for kinds with a status subresource
				stripStatus(obj)
				if obj.GetUID() == "" {
					obj.SetUID(k8stypes.UID(fmt.Sprintf("sim-uid-%d", uidSeq.Add(1))))
				}
				return c.Create(ctx, obj, opts...)
			})
		},
		Update: func(ctx context.Context, c client.WithWatch, obj client.Object, opts ...client.UpdateOption) error {
			return write(ctx, c, "update", obj, func() error { return c.Update(ctx, obj, opts...) })
		},
		Patch: func(ctx context.Context, c client.WithWatch, obj client.Object, patch client.Patch, opts ...client.PatchOption) error {
			return write(ctx, c, "patch", obj, func() error { return c.Patch(ctx, obj, patch, opts...) })
		},
		Delete: func(ctx context.Context, c client.WithWatch, obj client.Object, opts ...client.DeleteOption) error {
			return write(ctx, c, "delete", obj, func() error {
				// fidelity: the fake client honours only the resourceVersion precondition; a real API server
				// also checks the UID precondition
				do := &client.DeleteOptions{}
				do.ApplyOptions(opts)
				if do.Preconditions != nil && do.Preconditions.UID != nil {
					cur := obj.DeepCopyObject().(client.Object)
					if err := c.Get(ctx, client.ObjectKeyFromObject(obj), cur); err == nil && cur.GetUID() != *do.Preconditions.UID {
						return apierrors.NewConflict(schema.GroupResource{Resource: "objects"}, obj.GetName(), fmt.Errorf("Precondition failed: UID in precondition: %s, UID in object meta: %s", *do.Preconditions.UID, cur.GetUID()))
					}
				}
				return c.Delete(ctx, obj, opts...)
			})
		},
		SubResourceUpdate: func(ctx context.Context, c client.Client, sub string, obj client.Object, opts ...client.SubResourceUpdateOption) error {
			return write(ctx, c.(client.WithWatch), "status-update", obj, func() error { return c.SubResource(sub).Update(ctx, obj, opts...) })
		},
		SubResourcePatch: func(ctx context.Context, c client.Client, sub string, obj client.Object, patch client.Patch, opts ...client.SubResourcePatchOption) error {
			return write(ctx, c.(client.WithWatch), "status-patch", obj, func() error { return c.SubResource(sub).Patch(ctx, obj, patch, opts...) })
		},
	})
	return b.Build()
}

func stripStatus(obj client.Object) {
	switch o := obj.(type) {
	case *v1beta1.Node:
		o.Status = v1beta1.NodeStatus{}
	case *v1beta1.NodeRuntime:
		o.Status = v1beta1.NodeRuntimeStatus{}
	case *v1beta1.PodENI:
		o.Status = v1beta1.PodENIStatus{}
	case *v1beta1.PodNetworking:
		o.Status = v1beta1.PodNetworkingStatus{}
	}
}
