package main

// C02 — cluster IPAM binds each IP to one pod and each pod to one ENI. Harness: ipam.go.

import (
	"fmt"
	"math/rand"
	"os"
	"sync"
	"time"

	"github.com/go-logr/logr/funcr"
	logf "sigs.k8s.io/controller-runtime/pkg/log"

	"verifharness/cloudsim"
)

func init() {
	register("C02", &checkDef{level: "exploration", fn: runC02, race: ipamRace, netns: true,
		batches:  func(th bool) int { return map[bool]int{false: 4, true: 16}[th] },
		parallel: func(bool) int { return 4 },
		timeout: func(th bool) time.Duration {
			return map[bool]time.Duration{false: 20 * time.Minute, true: 90 * time.Minute}[th]
		},
	})
}

func ipamRace(rep string) (string, bool) {
	if containsAny(rep, "pkg/controller/multi-ip/node.") {
		return "ipam-controller", true
	}
	return "", false
}

func containsAny(s string, subs ...string) bool {
	for _, x := range subs {
		if len(x) > 0 && len(s) >= len(x) && (stringsIndex(s, x) >= 0) {
			return true
		}
	}
	return false
}

func runC02(c *ctxT) {
	r := c.R
	n := 120
	if c.Thorough {
		n = 500
	}
	r.Rule = "one history = one node under the real multi-ip ReconcileNode on the simulated API server + cloud: generated node configuration (IPv4/IPv6/dual, trunk, RDMA, 2..6 adapters x 2..10 addresses, pool min<=max) x generated initial record (empty, existing ENIs, taken-over pods that report addresses with PodID but no PodUID, partially bound dual-stack pods, an ENI in Deleting) x 20..60 steps of: create pod (plain / RDMA / host network / pod-eni), CNI ADD through the real agent, graceful or forced deletion, reconcile, controller restart, cloud drift (address or interface removed), status-update conflict/loss, cloud faults. Every Node CR write is diffed at the API server. distinct = distinct (stack, trunk, rdma, adapters, initial record, runtime object) classes"
	r.Assumptions = []string{"API server and cloud are simulated; the fake API server has no admission and no watch caches", "createENI's 3 s post-attach sleep runs in real time; everything else is step-counted"}
	runIpamHistories(c, "C02", n, 80, func(i int, rng *rand.Rand) ipamCfg {
		cfg := genIpamCfg(rng)
		if rng.Intn(3) == 0 {
			cfg.Faults = genFaults(rng, 1+rng.Intn(3), 25)
		}
		cfg.APIFaults = rng.Intn(3) == 0
		return cfg
	}, ipamRandomWalk)
}

// runIpamHistories runs n histories, width at a time.
func runIpamHistories(c *ctxT, prop string, n, width int, mk func(i int, rng *rand.Rand) ipamCfg, body func(h *ipamHist)) {
	sem := make(chan struct{}, width)
	var wg sync.WaitGroup
	base := c.R.Seed*7919 + int64(c.Batch)*1000003
	only := -1
	if v := os.Getenv("VERIF_ONLY_HISTORY"); v != "" {
		fmt.Sscan(v, &only)
		logf.SetLogger(funcr.New(func(prefix, args string) { fmt.Println("LOG", prefix, args) }, funcr.Options{Verbosity: 5}))
	}
	for i := 0; i < n; i++ {
		if only >= 0 && c.Batch*100000+i != only {
			continue
		}
		wg.Add(1)
		sem <- struct{}{}
		go func(i int) {
			defer wg.Done()
			defer func() { <-sem }()
			seed := base + int64(i)*104729
			rng := rand.New(rand.NewSource(seed))
			cfg := mk(i, rng)
			hid := c.Batch*100000 + i
			fmt.Printf("CASE %s history %d seed %d cfg %+v\n", prop, hid, seed, cfg)
			h := newIpamHist(c, prop, hid, cfg, seed)
			body(h)
			c.R.Eval(1)
			h.finish(c.R, true)
			if i < 1 && c.Batch == 0 {
				h.mon.mu.Lock()
				ev := h.mon.events
				if len(ev) > 50 {
					ev = ev[:50]
				}
				c.R.Sample(map[string]any{"history": hid, "config": cfg, "first_events": append([]string(nil), ev...)})
				h.mon.mu.Unlock()
			}
		}(i)
	}
	wg.Wait()
}

// ipamRandomWalk: the generic workload shared by C02/C03/C08 histories.
func ipamRandomWalk(h *ipamHist) {
	rng := h.rng
	cfg := h.cfg
	next := 0
	h.mon.mu.Lock()
	next = len(h.mon.pods)
	h.mon.mu.Unlock()
	livePods := func() []*ipamPod {
		h.mon.mu.Lock()
		defer h.mon.mu.Unlock()
		var out []*ipamPod
		for _, p := range h.mon.byUID {
			out = append(out, p)
		}
		sortPods(out)
		return out
	}
	for step := 0; step < cfg.Steps; step++ {
		pods := livePods()
		switch k := rng.Intn(100); {
		case k < 22 && next < cfg.Pods:
			var p *ipamPod
			var gone []*ipamPod
			for _, q := range pods {
				if !q.Exists {
					gone = append(gone, q)
				}
			}
			if len(gone) > 0 && rng.Intn(4) == 0 {
				// recreated under the name of a pod that is gone (its sandbox may still be there)
				q := gone[rng.Intn(len(gone))]
				h.mon.mu.Lock()
				cur := h.mon.pods["ns/"+q.Name]
				h.mon.mu.Unlock()
				if cur != nil && cur.Exists {
					break
				}
				p = h.newPodNamed(q.Name, q.RDMA)
			} else {
				p = h.newPod(next, cfg.ERDMA && rng.Intn(4) == 0)
				next++
			}
			switch rng.Intn(12) {
			case 0:
				p.Skip = "hostnet"
			case 1:
				p.Skip = "podeni"
			}
			h.writePod(p)
			h.mon.note("pod %s created (rdma=%v skip=%s)", p.Name, p.RDMA, p.Skip)
		case k < 50:
			_, _ = h.reconcile()
		case k < 65 && len(pods) > 0:
			p := pods[rng.Intn(len(pods))]
			if p.Exists && !p.Sandbox {
				h.cniAdd(p)
				if p.Sandbox {
					h.writePod(p) // kubelet reports the pod's addresses
				}
			} else if p.Exists && p.Sandbox && p.Skip == "" && rng.Intn(3) == 0 {
				// the runtime restarts the sandbox of a pod that stays (containerd restart, node reboot): DEL of
				// the old sandbox, ADD of a new one for the same UID
				h.cniDel(p, p.Container)
				if p.Sandbox {
					break // the DEL failed: kubelet retries before it starts anything new
				}
				if rng.Intn(3) != 0 {
					h.flush()
				}
				h.mon.mu.Lock()
				p.Restarts++
				p.Container = fmt.Sprintf("c-%s-r%d", p.UID, p.Restarts)
				h.mon.ev("sandbox of %s restarted (new container %s)", p.Name, p.Container)
				h.mon.mu.Unlock()
				h.cniAdd(p)
				if p.Sandbox {
					h.writePod(p)
				}
			}
		case k < 78 && len(pods) > 0:
			p := pods[rng.Intn(len(pods))]
			if !p.Exists {
				if p.Sandbox && rng.Intn(2) == 0 {
					h.cniDel(p, p.Container) // the late DEL of a pod whose object is already gone
				}
				break
			}
			if rng.Intn(3) != 0 {
				// graceful: DEL, report, then the object goes away
				if p.Sandbox {
					h.cniDel(p, p.Container)
				}
				if rng.Intn(4) != 0 {
					h.flush()
				}
				h.deletePodObj(p)
			} else {
				// forced: the object vanishes first; DEL later, much later or never
				h.deletePodObj(p)
				if p.Sandbox && rng.Intn(2) == 0 {
					h.cniDel(p, p.Container)
				}
			}
		case k < 84:
			h.flush()
		case k < 87:
			_ = h.agent.VerifSyncDeletedPods(ctxBG())
		case k < 90:
			if rng.Intn(3) == 0 {
				_ = h.agent.VerifSyncDeletedPods(ctxBG())
			}
			f := 0
			if cfg.APIFaults || rng.Intn(3) == 0 {
				f = rng.Intn(4)
			}
			h.agentGC(f)
		case k < 92:
			h.restartController()
		case k < 95:
			h.drift()
		case k < 98 && cfg.APIFaults:
			h.apiMu.Lock()
			h.apiFlt[[]string{"node", "runtime"}[rng.Intn(2)]] += 1 + rng.Intn(2)
			h.apiMu.Unlock()
		default:
			_, _ = h.reconcile()
		}
	}
	// a few closing reconciles so that late bindings are observed too
	for i := 0; i < 3; i++ {
		_, _ = h.reconcile()
	}
}

var _ = cloudsim.FaultNone
