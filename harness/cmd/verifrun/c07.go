package main

// C07 — node pool and cloud agree; failed calls leave no orphans.
// Fault-heavy histories on the pool harness, then a fault-free tail driven to quiescence in a
// counted number of rounds; the oracle compares the pool's Status() with the cloud's state.

import (
	"fmt"
	"math/rand"
	"net/netip"
	"time"

	"verifharness/cloudsim"
)

func init() {
	register("C07", &checkDef{level: "fault_enumeration", fn: runC07, race: poolRace,
		batches:  func(th bool) int { return map[bool]int{false: 4, true: 20}[th] },
		parallel: func(th bool) int { return 4 },
		timeout: func(th bool) time.Duration {
			return map[bool]time.Duration{false: 20 * time.Minute, true: 90 * time.Minute}[th]
		},
	})
}

var c07Kinds = []cloudsim.FaultKind{cloudsim.FaultErrBefore, cloudsim.FaultErrAfter, cloudsim.FaultPartial, cloudsim.FaultQuotaENI, cloudsim.FaultVSwExhaust, cloudsim.FaultQuotaIP, cloudsim.FaultHalfCreated}

func c07Scripts() []poolCfg {
	mk := func(ops ...poolOp) []poolOp { return ops }
	add := func(p int) poolOp { return poolOp{Pod: p, Kind: "add"} }
	del := func(p int) poolOp { return poolOp{Pod: p, Kind: "del"} }
	return []poolCfg{
		{V4: true, Slots: 2, Cap: 3, Batch: 2, MinIdle: 1, MaxIdle: 2, Policy: "most_ips", Pods: 8, Syncs: true,
			Script: mk(add(0), add(1), add(2), add(3), add(4), add(5), del(1), del(3), add(6), add(7))},
		{V4: true, V6: true, Slots: 2, Cap: 2, Batch: 3, MinIdle: 0, MaxIdle: 0, Policy: "least_ips", Pods: 4, Syncs: true,
			Script: mk(add(0), add(1), add(2), add(3), del(0), del(1), del(2), del(3))},
		{V6: true, Slots: 3, Cap: 3, Batch: 2, Pre: []int{1}, PreV6: []int{1}, MinIdle: 2, MaxIdle: 4, Policy: "", Pods: 6, Syncs: true,
			Script: mk(add(0), add(1), poolOp{Pod: 2, Kind: "add", Cancel: 350}, add(3), add(4), del(0), add(5))},
		// large shrink: a full interface, nothing may stay idle, unassign batches smaller than the surplus
		{V4: true, V6: true, Slots: 2, Cap: 10, Batch: 3, Pre: []int{10}, PreV6: []int{10}, MinIdle: 0, MaxIdle: 0, Policy: "most_ips", Pods: 4, Syncs: true,
			Script: mk(add(0), add(1), del(1), add(2), del(2))},
	}
}

func runC07(c *ctxT) {
	r := c.R
	nRandom := 40
	if c.Thorough {
		nRandom = 150
	}
	r.Rule = "enumerated: 4 fixed request scripts × single fault at mutating cloud call 1..24 (positions beyond the client phase hit the unassign/delete calls of the shrinking tail) × 7 fault kinds (err-before, err-after, partial, quota-eni, vsw-exhaust, quota-ip, half-created) — every first-order placement; random: pool histories with 1..6 faults among the first 30 cloud calls combined with request cancellation. After the clients finish faults stop and the pool is driven to quiescence in <= 100 counted rounds (clear inhibit, balancer, sync, settle); then pool Status() is compared with the cloud (ENIs, addresses), owners with the ledger, idle count with the min/max band. distinct = distinct (script|random, fault position, kind, API hit) placements + event-log signatures"
	r.Assumptions = []string{"cloud simulated at the factory.Factory boundary; an error-after-effect on create/assign reports what was created (as pkg/factory/aliyun does); unassign/delete are idempotent", "no cloud drift in C07 histories (the property quantifies over fault placements)", "'eventually' is decided as bounded progress: 100 balancer/sync rounds after faults stop"}

	// ---- enumeration: split over batches ----
	scripts := c07Scripts()
	type placement struct {
		s, pos int
		kind   cloudsim.FaultKind
	}
	var all []placement
	for s := range scripts {
		for pos := 1; pos <= 24; pos++ {
			for _, k := range c07Kinds {
				all = append(all, placement{s, pos, k})
			}
		}
	}
	var mine []placement
	for i, p := range all {
		if i%c.NBatch == c.Batch {
			mine = append(mine, p)
		}
	}
	runPoolHistories(c, "C07", len(mine), 100, func(i int, rng *rand.Rand) poolCfg {
		p := mine[i]
		cfg := scripts[p.s]
		cfg.Faults = map[int]cloudsim.Fault{p.pos: {Kind: p.kind}}
		cfg.LatencyUS = 500
		return cfg
	}, func(h *poolHist) {
		c07Quiesce(h, true)
		// which API did the fault hit?
		api := "none"
		for _, cl := range h.cloud.Calls() {
			if cl.Fault != cloudsim.FaultNone {
				api = cl.API
			}
		}
		for pos, f := range h.cfg.Faults {
			r.DistinctKey(fmt.Sprintf("enum/%s/%d/%s/%s", h.cfg.Policy, pos, f.Kind, api))
			r.Count("enum_placements", 1)
			if api != "none" {
				r.Count("enum_placements_reached", 1)
			}
		}
	})
	r.SetExtra("enumerated_single_fault_placements_total", len(all))

	// ---- random multi-fault histories ----
	runPoolHistories(c, "C07", nRandom, 100, func(i int, rng *rand.Rand) poolCfg {
		cfg := genPoolCfg(rng, i%3 == 0)
		cfg.Drift = false
		cfg.Faults = genFaults(rng, 1+rng.Intn(6), 30)
		cfg.CancelPct = []int{10, 30, 50}[rng.Intn(3)]
		if cfg.MinIdle > cfg.Slots*cfg.Cap {
			cfg.MinIdle = cfg.Slots * cfg.Cap
			cfg.MaxIdle = cfg.MinIdle
		}
		return cfg
	}, func(h *poolHist) {
		c07Quiesce(h, false)
	})
}

// c07Quiesce: faults off, bounded rounds to a fixed point, then the agreement oracle.
// lateFaults: a single planned fault whose position lies beyond the client phase (the unassign / delete calls
// of the shrinking tail) still fires; faults stop after 12 rounds.
func c07Quiesce(h *poolHist, lateFaults bool) {
	if !lateFaults {
		h.cloud.StopFaults()
	}
	rounds := 0
	fixed := false
	last := ""
	same := 0
	for rounds = 1; rounds <= 100; rounds++ {
		if rounds == 12 {
			h.cloud.StopFaults()
		}
		for _, lo := range h.locals {
			lo.VerifClearInhibit()
		}
		h.balance()
		for _, lo := range h.locals {
			lo.VerifSync()
		}
		if !h.settle(6) {
			continue
		}
		k := h.status().key() + "|" + fmt.Sprint(h.cloud.MutatingCalls())
		if k == last {
			same++
			if same >= 2 {
				fixed = true
				// the balancer picks victims in map order: a round may make no progress without being at its
				// fixed point. Keep going (up to the bound) while the band is not reached.
				if below, above := c07Band(h); below == "" && above == "" {
					break
				}
			}
		} else {
			same = 0
			fixed = false
		}
		last = k
	}
	h.mon.r.Max("C07_rounds_to_quiescence", int64(rounds))
	if rounds > 15 {
		fmt.Printf("SLOW history %d rounds=%d cfg=%+v status=%s\n", h.mon.hid, rounds, h.cfg, h.status().key())
		h.mon.r.Sample(map[string]any{"slow_quiescence_rounds": rounds, "config": h.cfg, "final_status": h.status().key()})
	}
	h.mon.r.Count(fmt.Sprintf("rounds_to_quiescence_bucket_%d", bucket(rounds/3)), 1)
	if !fixed {
		h.mon.mu.Lock()
		h.mon.violate("C07", "C07.no-fixed-point", "quiescence", "pool + cloud did not reach a fixed point within 100 balancer/sync rounds after faults stopped (a mutating cloud call or a status change in every round)")
		h.mon.mu.Unlock()
	}
	st := h.status()
	snap := h.cloud.Snapshot()
	viol := func(class, site, msg string) {
		h.mon.mu.Lock()
		h.mon.ev("final pool status: %s", st.key())
		h.mon.violate("C07", class, site, msg+" || pool: "+st.key())
		h.mon.mu.Unlock()
	}
	tracked := map[string]string{} // eni -> status
	for _, s := range st.Raw {
		if s.NetworkInterfaceID != "" {
			tracked[s.NetworkInterfaceID] = s.Status
		}
	}
	// (a) interfaces
	for id, e := range snap.ENIs {
		if e.Deleted {
			if ts, ok := tracked[id]; ok {
				viol("C07.a-eni-ghost", ts, fmt.Sprintf("pool still tracks %s (status %s) which the cloud has deleted", id, ts))
			}
			continue
		}
		ts, ok := tracked[id]
		if !ok {
			viol("C07.a-eni-orphan", map[bool]string{true: "attached", false: "detached"}[e.Attached], fmt.Sprintf("interface %s exists in the cloud (attached=%v, %d/%d addresses) but the pool does not track it: created on the daemon's behalf and neither tracked nor handed back", id, e.Attached, len(e.V4), len(e.V6)))
			continue
		}
		if ts == "Deleting" {
			viol("C07.a-eni-stuck-deleting", "healthy-cloud", fmt.Sprintf("interface %s is still 'Deleting' in the pool and present in the cloud after the fault-free tail", id))
			continue
		}
		// (b) addresses
		have := map[netip.Addr]bool{}
		var cloudAddrs []netip.Addr
		if h.cfg.V4 {
			cloudAddrs = append(cloudAddrs, e.V4...)
		}
		if h.cfg.V6 {
			cloudAddrs = append(cloudAddrs, e.V6...)
		}
		for _, a := range cloudAddrs {
			have[a] = true
			if _, ok := st.ENIs[id][a.String()]; !ok {
				viol("C07.b-ip-orphan", map[bool]string{true: "v6", false: "v4"}[a.Is6()], fmt.Sprintf("address %s is assigned to %s in the cloud but the pool does not list it", a, id))
			}
		}
		for ip, ps := range st.ENIs[id] {
			a, err := netip.ParseAddr(ip)
			if err != nil {
				continue
			}
			switch ps[1] {
			case "Valid":
				if !have[a] {
					viol("C07.b-ip-ghost", "valid", fmt.Sprintf("pool lists %s on %s as Valid (owner %q) but the cloud does not have it, after a completed sync", ip, id, ps[0]))
				}
			case "Deleting":
				viol("C07.b-ip-stuck-deleting", map[bool]string{true: "still-in-cloud", false: "gone-in-cloud"}[have[a]], fmt.Sprintf("address %s on %s is still 'Deleting' in the pool after the fault-free tail", ip, id))
			}
		}
	}
	for id, ts := range tracked {
		if _, ok := snap.ENIs[id]; !ok {
			viol("C07.a-eni-ghost", ts, fmt.Sprintf("pool tracks %s which the cloud never created", id))
		}
	}
	// (c) owners
	h.ownersAgree("C07")
	// (d) idle band
	if fixed {
		below, above := c07Band(h)
		if below != "" {
			viol("C07.d-below-min", "healthy-cloud", below)
		}
		if above != "" {
			viol("C07.d-above-max", "healthy-cloud", above)
		}
	}
	h.mon.r.Count("quiescent_checks", 1)
}

// c07Band evaluates the idle watermark band on the pool's current status; returns the two findings ("" = fine).
func c07Band(h *poolHist) (below, above string) {
	if !h.cfg.V4 {
		// the band is judged for the stacks the daemon accepts (ipv4, dual): config validation rejects ipv6-only
		return "", ""
	}
	st := h.status()
	snap := h.cloud.Snapshot()
	idle, idlePrimary, inuse := 0, 0, 0
	room := false
	for _, s := range st.Raw {
		if s.NetworkInterfaceID == "" {
			if s.Status == "Init" {
				room = true
			}
			continue
		}
		if s.Status != "InUse" {
			continue
		}
		n, nOther := 0, 0
		for ip, ps := range st.ENIs[s.NetworkInterfaceID] {
			a, _ := netip.ParseAddr(ip)
			if !a.Is4() { // the pool measures IPv4 when enabled
				nOther++
				continue
			}
			n++
			if ps[0] != "" {
				inuse++
				continue
			}
			if ps[1] == "Valid" {
				idle++
				if e, ok := snap.ENIs[s.NetworkInterfaceID]; ok && e.Primary == a {
					idlePrimary++
				}
			}
		}
		// a pre-heat request needs room in every enabled family of the interface
		if n < h.cfg.Cap && s.Type != "erdma" && (!h.cfg.V6 || nOther < h.cfg.Cap) {
			room = true
		}
	}
	capac := h.cfg.Slots * h.cfg.Cap
	if idle < h.cfg.MinIdle && room && idle+inuse < capac {
		below = fmt.Sprintf("idle=%d < minIdle=%d although capacity is left (in use %d, capacity %d) after the bounded fault-free tail", idle, h.cfg.MinIdle, inuse, capac)
	}
	if idle-idlePrimary > h.cfg.MaxIdle {
		above = fmt.Sprintf("idle=%d (of which %d undisposable primaries) > maxIdle=%d after the bounded fault-free tail", idle, idlePrimary, h.cfg.MaxIdle)
	}
	return
}
