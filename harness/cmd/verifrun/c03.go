package main

// C03 — an address is reclaimed only after the pod is gone and its teardown confirmed.
// Harness and monitors: ipam.go (reclaim guard on every Node CR write and on every cloud
// unassign/detach/delete, NodeRuntime write observer, step-counted progress).

import (
	"fmt"
	"math/rand"
	"time"
)

func init() {
	register("C03", &checkDef{level: "exploration", fn: runC03, race: ipamRace, netns: true,
		batches:  func(th bool) int { return map[bool]int{false: 4, true: 16}[th] },
		parallel: func(bool) int { return 4 },
		timeout: func(th bool) time.Duration {
			return map[bool]time.Duration{false: 20 * time.Minute, true: 90 * time.Minute}[th]
		},
	})
}

func runC03(c *ctxT) {
	r := c.R
	n := 120
	if c.Thorough {
		n = 500
	}
	r.Rule = "IPAM closed-loop histories (ipam.go) with deletion choreographies drawn per pod: graceful (DEL -> report -> object removed), forced (object removed first; DEL later or never), stale DEL replays, sandbox restarts, NodeRuntime writes lost / failing / first-ever, pool GC pressure (small MaxPoolSize), controller restarts, status-update conflicts. Every Node CR write that unbinds, re-binds, marks Deleting or drops a bound address, and every cloud unassign/detach/delete, is judged against the kubelet simulator's ground truth and the stored NodeRuntime; every NodeRuntime write that newly reports a teardown is judged against the DELs the agent processed; after a pod is gone, torn down and reported, the address must be free within 10 reconciles. distinct = distinct (config class) x choreography mix"
	r.Assumptions = []string{"agent and controller share one simulated API server; partitions are modelled as lost / failed writes", "bounded progress: 10 reconciles"}
	runIpamHistories(c, "C03", n, 80, func(i int, rng *rand.Rand) ipamCfg {
		cfg := genIpamCfg(rng)
		if rng.Intn(2) == 0 {
			cfg.MaxPool = cfg.MinPool // GC pressure
		}
		cfg.APIFaults = rng.Intn(2) == 0
		if rng.Intn(4) == 0 {
			cfg.Faults = genFaults(rng, 1+rng.Intn(2), 25)
		}
		return cfg
	}, func(h *ipamHist) {
		ipamRandomWalk(h)
		c03Progress(h)
	})
}

// c03Progress: every pod that is gone, torn down and reported must have its address freed within 10 reconciles.
func c03Progress(h *ipamHist) {
	h.cloud.StopFaults()
	h.apiMu.Lock()
	h.apiFlt = map[string]int{}
	h.apiMu.Unlock()
	// finish the choreography of every pod that was deleted: DEL processed and reported
	h.mon.mu.Lock()
	var gone []*ipamPod
	for _, p := range h.mon.byUID {
		if !p.Exists {
			gone = append(gone, p)
		}
	}
	h.mon.mu.Unlock()
	sortPods(gone)
	for _, p := range gone {
		if p.Sandbox {
			h.cniDel(p, p.Container)
		}
	}
	h.flush()
	for i := 0; i < 10; i++ {
		_, _ = h.reconcile()
	}
	h.mon.mu.Lock()
	defer h.mon.mu.Unlock()
	if h.mon.lastCR == nil {
		return
	}
	for _, p := range gone {
		if !p.DelDone || !p.Flushed {
			continue // never had a sandbox (nothing to report) or the report could not be flushed
		}
		for id, e := range h.mon.lastCR.Status.NetworkInterfaces {
			for _, set := range []map[string]*v1beta1IP{toIPMap(e.IPv4), toIPMap(e.IPv6)} {
				for ip, v := range set {
					if v.PodUID == p.UID {
						h.mon.violate("C03", "C03.address-never-freed", "bounded-progress", fmt.Sprintf("pod %s (uid %s) is gone, its DEL was processed and reported, yet after 10 further reconciles %s on %s is still bound to it", p.Name, p.UID, ip, id))
					}
				}
			}
		}
		h.mon.r.Count("progress_checks", 1)
	}
}
