package main

// Harness of the daemon family (C04, C05, C09, C12): the real networkService (verif hook
// constructor) with the real Kubernetes layer on the simulated API server, the real bolt
// DiskStorage behind a fault/latency/crash-image wrapper, and the real eni.Manager/Local
// pool over the simulated cloud (pool.go).

import (
	"context"
	"errors"
	"fmt"
	"io"
	"math/rand"
	"net/netip"
	"os"
	"path/filepath"
	"strings"
	"sync"
	"time"

	corev1 "k8s.io/api/core/v1"
	metav1 "k8s.io/apimachinery/pkg/apis/meta/v1"
	k8stypes "k8s.io/apimachinery/pkg/types"
	"sigs.k8s.io/controller-runtime/pkg/client"

	"github.com/AliyunContainerService/terway/daemon"
	"github.com/AliyunContainerService/terway/pkg/eni"
	"github.com/AliyunContainerService/terway/pkg/k8s"
	"github.com/AliyunContainerService/terway/pkg/storage"
	"github.com/AliyunContainerService/terway/rpc"
	"github.com/AliyunContainerService/terway/types"
	tdaemon "github.com/AliyunContainerService/terway/types/daemon"

	"verifharness/apisim"
)

// faultStore wraps the daemon's resource DB: serialises writes (so a byte copy of the bolt
// file taken between two writes is a state the disk really had), injects latency / errors,
// and reports every effect boundary to an observer.
type faultStore struct {
	inner   storage.Storage
	path    string
	mu      sync.Mutex
	putErr  func(key string) error // error BEFORE effect
	delErr  func(key string) error
	delay   func() time.Duration
	observe func(kind, key string, before bool) // called with mu held: a safe point to copy the file
	gate    func(kind, key string)              // called before mu is taken: may park the caller (directed schedules)
}

func (f *faultStore) Put(key string, value interface{}) error {
	if f.delay != nil {
		time.Sleep(f.delay())
	}
	if g := f.gate; g != nil {
		g("put", key)
	}
	f.mu.Lock()
	defer f.mu.Unlock()
	if f.observe != nil {
		f.observe("put", key, true)
	}
	if f.putErr != nil {
		if err := f.putErr(key); err != nil {
			return err
		}
	}
	err := f.inner.Put(key, value)
	if f.observe != nil {
		f.observe("put", key, false)
	}
	return err
}
func (f *faultStore) Delete(key string) error {
	if f.delay != nil {
		time.Sleep(f.delay())
	}
	if g := f.gate; g != nil {
		g("delete", key)
	}
	f.mu.Lock()
	defer f.mu.Unlock()
	if f.observe != nil {
		f.observe("delete", key, true)
	}
	if f.delErr != nil {
		if err := f.delErr(key); err != nil {
			return err
		}
	}
	err := f.inner.Delete(key)
	if f.observe != nil {
		f.observe("delete", key, false)
	}
	return err
}
func (f *faultStore) Get(key string) (interface{}, error) { return f.inner.Get(key) }
func (f *faultStore) List() ([]interface{}, error)        { return f.inner.List() }

// copyFile copies the bolt file (call with f.mu held or when no writer can run).
func copyFile(src, dst string) error {
	in, err := os.Open(src)
	if err != nil {
		return err
	}
	defer in.Close()
	out, err := os.Create(dst)
	if err != nil {
		return err
	}
	defer out.Close()
	_, err = io.Copy(out, in)
	return err
}

type dHist struct {
	*poolHist
	c      *ctxT
	hooks  *apisim.Hooks
	cl     client.WithWatch
	kube   k8s.Kubernetes
	db     *faultStore
	svc    *daemon.VerifService
	node   *corev1.Node
	dir    string
	sticky map[string]bool
	uidGen map[string]int
	umu    sync.Mutex
}

func openResDB(path string) (storage.Storage, error) {
	ser, de := daemon.VerifResourceDBCodec()
	return storage.NewDiskStorage("relation", path, ser, de)
}

// newDHist builds a daemon instance. records != nil restarts the pool from stored records (C05).
func newDHist(c *ctxT, prop string, hid int, cfg poolCfg, seed int64, ipam types.IPAMType) (*dHist, error) {
	d := &dHist{c: c, sticky: map[string]bool{}, uidGen: map[string]int{}}
	d.poolHist = newPoolHist(c, prop, hid, cfg, seed)
	d.dir = filepath.Join(c.Scratch, fmt.Sprintf("h%d", hid))
	if err := os.MkdirAll(d.dir, 0o755); err != nil {
		return nil, err
	}
	inner, err := openResDB(filepath.Join(d.dir, "resource.db"))
	if err != nil {
		return nil, err
	}
	d.db = &faultStore{inner: inner, path: filepath.Join(d.dir, "resource.db")}
	d.node = &corev1.Node{ObjectMeta: metav1.ObjectMeta{Name: "node-1"}}
	d.hooks = &apisim.Hooks{}
	d.cl = apisim.New(d.hooks, d.node.DeepCopy())
	svc := &types.IPNetSet{}
	svc.SetIPNet("172.16.0.0/16")
	d.kube = k8s.NewVerifK8S(d.cl, tdaemon.ModeENIMultiIP, d.node, storage.NewMemoryStorage(), svc, cfg.ERDMA)
	d.svc = daemon.NewVerifService(d.kube, d.db, d.mgr, tdaemon.ModeENIMultiIP, ipam, cfg.V4, cfg.V6, false)
	return d, nil
}

func (d *dHist) podObj(i int, uid string) *corev1.Pod {
	name := fmt.Sprintf("p%d", i)
	p := &corev1.Pod{ObjectMeta: metav1.ObjectMeta{Name: name, Namespace: "ns", UID: k8stypes.UID(uid)}, Spec: corev1.PodSpec{NodeName: "node-1", Containers: []corev1.Container{{Name: "c", Image: "x"}}}, Status: corev1.PodStatus{Phase: corev1.PodRunning}}
	if d.sticky["ns/"+name] {
		p.OwnerReferences = []metav1.OwnerReference{{APIVersion: "apps/v1", Kind: "StatefulSet", Name: "sts", UID: "sts-uid"}}
	}
	return p
}

// ensurePod creates the pod object if absent; recreate => delete and create with a new UID.
func (d *dHist) ensurePod(i int, recreate bool) {
	d.umu.Lock()
	defer d.umu.Unlock()
	name := fmt.Sprintf("p%d", i)
	key := "ns/" + name
	cur := &corev1.Pod{}
	err := d.cl.Get(context.Background(), client.ObjectKey{Namespace: "ns", Name: name}, cur)
	if err == nil && !recreate {
		return
	}
	if err == nil {
		_ = d.cl.Delete(context.Background(), cur)
	}
	d.uidGen[key]++
	_ = d.cl.Create(context.Background(), d.podObj(i, fmt.Sprintf("uid-%s-%d", name, d.uidGen[key])))
}

func (d *dHist) deletePod(i int) {
	d.umu.Lock()
	defer d.umu.Unlock()
	cur := &corev1.Pod{}
	if err := d.cl.Get(context.Background(), client.ObjectKey{Namespace: "ns", Name: fmt.Sprintf("p%d", i)}, cur); err == nil {
		_ = d.cl.Delete(context.Background(), cur)
	}
}

type rpcResult struct {
	Kind       string // add | del | get
	Pod        string
	Container  string
	Err        error
	Processing bool
	V4, V6     netip.Addr
	MAC        string
	TCall      int64
	TRet       int64
	NetConfs   []*rpc.NetConf
	IPType     rpc.IPType
}

func isProcessing(err error) bool {
	var te *types.Error
	if errors.As(err, &te) {
		return te.Code == types.ErrPodIsProcessing
	}
	return err != nil && strings.Contains(err.Error(), "is processing")
}

func addrsOf(ncs []*rpc.NetConf) (v4, v6 netip.Addr, mac string) {
	for _, nc := range ncs {
		if nc == nil || nc.BasicInfo == nil || nc.BasicInfo.PodIP == nil {
			continue
		}
		if a, err := netip.ParseAddr(nc.BasicInfo.PodIP.IPv4); err == nil {
			v4 = a
		}
		if a, err := netip.ParseAddr(nc.BasicInfo.PodIP.IPv6); err == nil {
			v6 = a
		}
		if nc.ENIInfo != nil {
			mac = nc.ENIInfo.MAC
		}
	}
	return
}

func (d *dHist) rpcAdd(ctx context.Context, i int, container string) rpcResult {
	name := fmt.Sprintf("p%d", i)
	r := rpcResult{Kind: "add", Pod: "ns/" + name, Container: container, TCall: d.mon.now()}
	reply, err := d.svc.AllocIP(ctx, &rpc.AllocIPRequest{K8SPodName: name, K8SPodNamespace: "ns", K8SPodInfraContainerId: container, Netns: "/proc/1/ns/net", IfName: "eth0"})
	r.TRet = d.mon.now()
	r.Err = err
	r.Processing = isProcessing(err)
	if err == nil && reply != nil {
		r.V4, r.V6, r.MAC = addrsOf(reply.NetConfs)
		r.NetConfs = reply.NetConfs
		r.IPType = reply.IPType
		if !reply.Success {
			r.Err = fmt.Errorf("reply.Success=false")
		}
	}
	return r
}

func (d *dHist) rpcDel(ctx context.Context, i int, container string) rpcResult {
	name := fmt.Sprintf("p%d", i)
	r := rpcResult{Kind: "del", Pod: "ns/" + name, Container: container, TCall: d.mon.now()}
	_, err := d.svc.ReleaseIP(ctx, &rpc.ReleaseIPRequest{K8SPodName: name, K8SPodNamespace: "ns", K8SPodInfraContainerId: container})
	r.TRet = d.mon.now()
	r.Err = err
	r.Processing = isProcessing(err)
	return r
}

func (d *dHist) rpcGet(ctx context.Context, i int, container string) rpcResult {
	name := fmt.Sprintf("p%d", i)
	r := rpcResult{Kind: "get", Pod: "ns/" + name, Container: container, TCall: d.mon.now()}
	reply, err := d.svc.GetIPInfo(ctx, &rpc.GetInfoRequest{K8SPodName: name, K8SPodNamespace: "ns", K8SPodInfraContainerId: container})
	r.TRet = d.mon.now()
	r.Err = err
	r.Processing = isProcessing(err)
	if err == nil && reply != nil {
		r.V4, r.V6, r.MAC = addrsOf(reply.NetConfs)
		r.NetConfs = reply.NetConfs
	}
	return r
}

func (d *dHist) eniByMAC(mac string) string {
	for id, e := range d.cloud.Snapshot().ENIs {
		if e.MAC == mac {
			return id
		}
	}
	return ""
}

// records returns the daemon's stored records by pod key.
func (d *dHist) records() map[string]tdaemon.PodResources {
	out := map[string]tdaemon.PodResources{}
	l, _ := d.db.List()
	for _, x := range l {
		pr := x.(tdaemon.PodResources)
		if pr.PodInfo != nil {
			out[pr.PodInfo.Namespace+"/"+pr.PodInfo.Name] = pr
		}
	}
	return out
}

func dRand(seed int64) *rand.Rand { return rand.New(rand.NewSource(seed)) }

var _ = eni.NewLocalIPRequest
