package main

// C20 — layered configuration composes predictably; generated CNI chain is coherent.
//
// Merge half (here): daemon.MergeConfigAndUnmarshal against an independent RFC 7396
// implementation + the three algebraic laws. Chain half: in-package test injected with
// `go test -overlay` into cmd/terway-cli (package main), run as a sub-process; its dump is
// merged into this result.

import (
	"bytes"
	"context"
	"encoding/json"
	"fmt"
	"math/rand"
	"os"
	"os/exec"
	"path/filepath"
	"reflect"
	"strings"
	"time"

	corev1 "k8s.io/api/core/v1"
	metav1 "k8s.io/apimachinery/pkg/apis/meta/v1"
	"sigs.k8s.io/controller-runtime/pkg/client"

	"github.com/AliyunContainerService/terway/types/daemon"

	"verifharness/apisim"
	"verifharness/monitor"
)

func init() {
	register("C20", &checkDef{level: "exploration", fn: runC20,
		batches:  func(th bool) int { return map[bool]int{false: 1, true: 8}[th] },
		parallel: func(bool) int { return 8 },
		timeout: func(th bool) time.Duration {
			return map[bool]time.Duration{false: 30 * time.Minute, true: 90 * time.Minute}[th]
		},
	})
}

// rfc7396 applies a JSON merge patch (independent reference implementation).
func rfc7396(target, patch any) any {
	pm, ok := patch.(map[string]any)
	if !ok {
		return patch
	}
	tm, ok := target.(map[string]any)
	if !ok {
		tm = map[string]any{}
	} else {
		cp := make(map[string]any, len(tm))
		for k, v := range tm {
			cp[k] = v
		}
		tm = cp
	}
	for k, v := range pm {
		if v == nil {
			delete(tm, k)
		} else {
			tm[k] = rfc7396(tm[k], v)
		}
	}
	return tm
}

type cfgKey struct {
	name string
	gen  func(r *rand.Rand) any
}

func genStr(r *rand.Rand) any {
	return []string{"", "a", "cn-hangzhou", "10.0.0.0/16", "vsw-1", "ipv4", "dual", "é\u0000x", "null"}[r.Intn(9)]
}
func genInt(r *rand.Rand) any   { return []any{0, 1, 5, 10, -1, 2147483647, 3.0}[r.Intn(7)] }
func genBool(r *rand.Rand) any  { return r.Intn(2) == 0 }
func genFloat(r *rand.Rand) any { return []any{0, 1, 0.5, 1.5, 2}[r.Intn(5)] }
func genStrList(r *rand.Rand) any {
	n := r.Intn(4)
	l := make([]any, 0, n)
	for i := 0; i < n; i++ {
		l = append(l, fmt.Sprintf("v%d", r.Intn(5)))
	}
	return l
}
func genStrMap(r *rand.Rand) any {
	m := map[string]any{}
	for i, n := 0, r.Intn(4); i < n; i++ {
		if r.Intn(5) == 0 {
			m[fmt.Sprintf("k%d", r.Intn(4))] = nil
		} else {
			m[fmt.Sprintf("k%d", r.Intn(4))] = fmt.Sprintf("v%d", r.Intn(4))
		}
	}
	return m
}
func genVSwitches(r *rand.Rand) any {
	m := map[string]any{}
	for i, n := 0, r.Intn(4); i < n; i++ {
		z := fmt.Sprintf("zone-%d", r.Intn(3))
		switch r.Intn(6) {
		case 0:
			m[z] = nil
		default:
			m[z] = genStrList(r)
		}
	}
	return m
}
func genIntMap(r *rand.Rand) any {
	m := map[string]any{}
	for i, n := 0, r.Intn(4); i < n; i++ {
		if r.Intn(5) == 0 {
			m[fmt.Sprintf("api%d", r.Intn(3))] = nil
		} else {
			m[fmt.Sprintf("api%d", r.Intn(3))] = r.Intn(500)
		}
	}
	return m
}
func genBackoff(r *rand.Rand) any {
	m := map[string]any{}
	for i, n := 0, r.Intn(3); i < n; i++ {
		b := map[string]any{}
		if r.Intn(2) == 0 {
			b["Steps"] = r.Intn(5)
		}
		if r.Intn(2) == 0 {
			b["Factor"] = 1.5
		}
		if r.Intn(4) == 0 {
			b["Jitter"] = nil
		}
		m[fmt.Sprintf("bo%d", r.Intn(3))] = b
	}
	return m
}
func genRoutes(r *rand.Rand) any {
	l := []any{}
	for i, n := 0, r.Intn(3); i < n; i++ {
		l = append(l, map[string]any{"dst": fmt.Sprintf("10.%d.0.0/16", r.Intn(4))})
	}
	return l
}

var cfgKeys = []cfgKey{
	{"version", genStr}, {"access_key", genStr}, {"access_secret", genStr}, {"region_id", genStr}, {"credential_path", genStr},
	{"service_cidr", genStr}, {"vswitches", genVSwitches}, {"eni_tags", genStrMap}, {"max_pool_size", genInt}, {"min_pool_size", genInt},
	{"min_eni", genInt}, {"max_eni", genInt}, {"prefix", genStr}, {"security_group", genStr}, {"security_groups", genStrList},
	{"eni_cap_ratio", genFloat}, {"eni_cap_shift", genInt}, {"vswitch_selection_policy", genStr}, {"eni_selection_policy", genStr},
	{"ip_stack", genStr}, {"enable_eni_trunking", genBool}, {"enable_erdma", genBool}, {"custom_stateful_workload_kinds", genStrList},
	{"ipam_type", genStr}, {"backoff_override", genBackoff}, {"extra_routes", genRoutes}, {"disable_device_plugin", genBool},
	{"eni_tag_filter", genStrMap}, {"kube_client_qps", genFloat}, {"kube_client_burst", genInt}, {"resource_group_id", genStr},
	{"rate_limit", genIntMap}, {"enable_patch_pod_ips", genBool}, {"unknown_key", genStrMap},
}

func genCfgDoc(r *rand.Rand, overlay bool) map[string]any {
	doc := map[string]any{}
	n := r.Intn(10)
	if !overlay {
		n = 3 + r.Intn(14)
	}
	for i := 0; i < n; i++ {
		k := cfgKeys[r.Intn(len(cfgKeys))]
		switch {
		case overlay && r.Intn(7) == 0:
			doc[k.name] = nil // RFC 7396 delete
		case r.Intn(40) == 0:
			doc[k.name] = []any{1, "x", nil, map[string]any{"a": nil}}[r.Intn(4)] // type confusion
		default:
			doc[k.name] = k.gen(r)
		}
	}
	return doc
}

func cfgFromBytes(b []byte) (*daemon.Config, error) {
	c := &daemon.Config{}
	err := json.Unmarshal(b, c)
	return c, err
}

func cfgDiff(a, b *daemon.Config) string {
	va, vb := reflect.ValueOf(*a), reflect.ValueOf(*b)
	var out []string
	for i := 0; i < va.NumField(); i++ {
		if !reflect.DeepEqual(va.Field(i).Interface(), vb.Field(i).Interface()) {
			out = append(out, fmt.Sprintf("%s: %#v vs %#v", va.Type().Field(i).Name, va.Field(i).Interface(), vb.Field(i).Interface()))
		}
	}
	return strings.Join(out, "; ")
}

func docShape(doc map[string]any) string {
	nulls, objs, arrs, nested := 0, 0, 0, 0
	for _, v := range doc {
		switch t := v.(type) {
		case nil:
			nulls++
		case map[string]any:
			objs++
			for _, vv := range t {
				if vv == nil {
					nested++
				}
			}
		case []any:
			arrs++
		}
	}
	return fmt.Sprintf("n%d/o%d/a%d/nn%d", bucket(nulls), bucket(objs), bucket(arrs), bucket(nested))
}

func runC20(c *ctxT) {
	r := c.R
	rng := rand.New(rand.NewSource(r.Seed + int64(c.Batch)*7919))
	n := 40000
	if c.Thorough {
		n = 1500000
	}
	n /= max(c.NBatch, 1)
	r.Rule = "merge: generated base/overlay JSON objects over the Config schema (scalars, maps with null members, arrays, nulls, unknown keys, occasional type confusion); laws: empty overlay, idempotence, absent keys keep base, equality with an independent RFC 7396 implementation; distinct = distinct (base shape, overlay shape, error-ness). chain: complete product of plugin lists × kernel eBPF/EDT × policy provider × requested virtual type × AutoDataPathV2 gate × recorded capabilities × cilium_net link × network-policy switch, enumerated in-package (cmd/terway-cli) under a private netns/mountns"
	r.Assumptions = []string{"reference = RFC 7396 as implemented in this harness + encoding/json", "chain half: nodeCapabilitiesFile is a const path; the test runs with a private tmpfs on /run"}

	for i := 0; i < n; i++ {
		base := genCfgDoc(rng, false)
		over := genCfgDoc(rng, true)
		bb, _ := json.Marshal(base)
		ob, _ := json.Marshal(over)
		if i%97 == 0 {
			ob = []byte("{}")
			over = map[string]any{}
		}
		r.Eval(1)
		rep := map[string]any{"base": string(bb), "overlay": string(ob)}
		var got *daemon.Config
		var gerr error
		func() {
			defer func() {
				if e := recover(); e != nil {
					gerr = fmt.Errorf("panic: %v", e)
					r.Violate("C20.panic", "MergeConfigAndUnmarshal", fmt.Sprint(e), rep)
				}
			}()
			got, gerr = daemon.MergeConfigAndUnmarshal(ob, bb)
		}()
		// reference
		refDoc := rfc7396(base, over)
		rb, _ := json.Marshal(refDoc)
		want, werr := cfgFromBytes(rb)
		r.DistinctKey(fmt.Sprintf("merge/%s/%s/%v", docShape(base), docShape(over), werr == nil))
		if (gerr == nil) != (werr == nil) {
			r.Violate("C20.merge-differs-from-rfc7396", "error-ness", fmt.Sprintf("terway err=%v reference err=%v", gerr, werr), rep)
			continue
		}
		if gerr != nil {
			continue
		}
		if !reflect.DeepEqual(got, want) {
			site := "value"
			if strings.Contains(docShape(over), "nn0") == false {
				site = "nested-null"
			}
			r.Violate("C20.merge-differs-from-rfc7396", site, "result differs from RFC 7396 merge: "+cfgDiff(got, want), rep)
		}
		// the node-level entry point (what daemon, webhook and controllers read): the cluster ConfigMap overlaid
		// by the node's dynamic ConfigMap must give what the cluster ConfigMap alone gives when it already holds
		// the reference-merged document
		if i%4 == 0 {
			layered, lerr := c20FromConfigMaps(string(bb), string(ob))
			flat, ferr := c20FromConfigMaps(string(rb), "")
			r.Count("configmap_layering_cases", 1)
			if (lerr == nil) != (ferr == nil) {
				r.Violate("C20.merge-differs-from-rfc7396", "configmap/error-ness", fmt.Sprintf("ConfigFromConfigMap: layered err=%v, pre-merged err=%v", lerr, ferr), rep)
			} else if lerr == nil && !reflect.DeepEqual(layered, flat) {
				r.Violate("C20.merge-differs-from-rfc7396", "configmap/value", "ConfigFromConfigMap (cluster + node overlay) differs from the reference-merged document: "+cfgDiffSafe(layered, flat), rep)
			}
		}
		// law 1: empty overlay
		if len(over) == 0 {
			baseOnly, berr := cfgFromBytes(bb)
			g2, e2 := daemon.MergeConfigAndUnmarshal([]byte(""), bb)
			if berr == nil && (e2 != nil || !reflect.DeepEqual(g2, baseOnly) || !reflect.DeepEqual(got, baseOnly)) {
				r.Violate("C20.empty-overlay-changes", "empty", "empty overlay changed the configuration: "+cfgDiff(got, baseOnly), rep)
			}
			r.Count("merge_empty_overlay_cases", 1)
		}
		// law 2: applying the overlay twice equals once (second application through terway's own merge on the reference-merged document)
		twice, e3 := daemon.MergeConfigAndUnmarshal(ob, rb)
		if e3 != nil || !reflect.DeepEqual(twice, got) {
			r.Violate("C20.not-idempotent", "twice", fmt.Sprintf("overlay applied twice differs from once (err %v): %s", e3, cfgDiffSafe(twice, got)), rep)
		}
		// law 3: keys absent from the overlay keep the base value
		baseOnly, berr := cfgFromBytes(bb)
		if berr == nil {
			vb, vg := reflect.ValueOf(*baseOnly), reflect.ValueOf(*got)
			for fi := 0; fi < vb.NumField(); fi++ {
				tag := strings.Split(vb.Type().Field(fi).Tag.Get("json"), ",")[0]
				if _, touched := over[tag]; touched || tag == "" {
					continue
				}
				if !reflect.DeepEqual(vb.Field(fi).Interface(), vg.Field(fi).Interface()) {
					r.Violate("C20.absent-key-changed", tag, fmt.Sprintf("key %s absent from overlay but %#v became %#v", tag, vb.Field(fi).Interface(), vg.Field(fi).Interface()), rep)
				}
			}
		}
		if i < 2 {
			r.Sample(rep)
		}
	}

	// ---- chain half: run the in-package test binary (a complete enumeration: once) ----
	if c.Batch == 0 {
		runInpkg(c, "terwaycli.test", "TestVerifC20Chain", true)
	}
}

func cfgDiffSafe(a, b *daemon.Config) string {
	if a == nil || b == nil {
		return "nil result"
	}
	return cfgDiff(a, b)
}

// runInpkg runs an overlay-injected in-package test binary (built by ./check) and merges its dump.
func runInpkg(c *ctxT, bin, test string, netns bool) {
	r := c.R
	path := filepath.Join(monitor.Root(), "bin", bin)
	if _, err := os.Stat(path); err != nil {
		r.Inconclusive("in-package test binary missing: " + path)
		return
	}
	out := filepath.Join(c.Scratch, test+".json")
	inner := fmt.Sprintf("mount -t tmpfs tmpfs /run && mkdir -p /run/eni && exec %s -test.run '^%s$' -test.count=1 -test.timeout=20m", path, test)
	var cmd *exec.Cmd
	if netns {
		cmd = exec.Command("unshare", "-n", "-m", "sh", "-c", inner)
	} else {
		cmd = exec.Command(path, "-test.run", "^"+test+"$", "-test.count=1", "-test.timeout=20m")
	}
	tier := "quick"
	if c.Thorough {
		tier = "thorough"
	}
	cmd.Env = append(os.Environ(), "VERIF_INPKG_OUT="+out, "VERIF_TIER="+tier, fmt.Sprintf("VERIF_SEED=%d", r.Seed),
		"GORACE=halt_on_error=0 log_path="+filepath.Join(c.Scratch, "race"))
	cmd.Dir = c.Scratch
	var buf bytes.Buffer
	cmd.Stdout, cmd.Stderr = &buf, &buf
	err := cmd.Run()
	db, rerr := os.ReadFile(out)
	if rerr != nil {
		lg := tailBytes(buf.Bytes(), 4000)
		if bytes.Contains(buf.Bytes(), []byte("panic:")) || bytes.Contains(buf.Bytes(), []byte("fatal error:")) {
			keep := filepath.Join(monitor.Root(), "replays", fmt.Sprintf("%s-%s-crash.log", r.Property, test))
			_ = os.MkdirAll(filepath.Dir(keep), 0o755)
			_ = os.WriteFile(keep, tailBytes(buf.Bytes(), 200000), 0o644)
			r.Violate(r.Property+".process-crash", crashSite(buf.Bytes()), fmt.Sprintf("in-package test %s crashed; last case: %s; log %s", test, lastCase(buf.Bytes()), keep), map[string]any{"log": keep})
			return
		}
		r.Inconclusive(fmt.Sprintf("in-package test %s produced no dump (%v): %s", test, err, string(lg)))
		return
	}
	var d monitor.Dump
	if err := json.Unmarshal(db, &d); err != nil {
		r.Inconclusive("bad in-package dump: " + err.Error())
		return
	}
	d.Rule = ""
	r.Merge(d)
}

func c20FromConfigMaps(base, overlay string) (*daemon.Config, error) {
	objs := []client.Object{&corev1.ConfigMap{ObjectMeta: metav1.ObjectMeta{Name: "eni-config", Namespace: "kube-system"}, Data: map[string]string{"eni_conf": base}}}
	node := &corev1.Node{ObjectMeta: metav1.ObjectMeta{Name: "node-1", Labels: map[string]string{}}}
	if overlay != "" {
		node.Labels["terway-config"] = "dyn"
		objs = append(objs, &corev1.ConfigMap{ObjectMeta: metav1.ObjectMeta{Name: "dyn", Namespace: "kube-system"}, Data: map[string]string{"eni_conf": overlay}})
	}
	objs = append(objs, node)
	var cfg *daemon.Config
	var err error
	func() {
		defer func() {
			if e := recover(); e != nil {
				err = fmt.Errorf("panic: %v", e)
			}
		}()
		cfg, err = daemon.ConfigFromConfigMap(context.Background(), apisim.New(nil, objs...), "node-1")
	}()
	return cfg, err
}
