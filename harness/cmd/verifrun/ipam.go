package main

// Closed-loop harness of the cluster IPAM family (C02, C03, C08): the real
// multi-ip/node.ReconcileNode over the simulated API server and the controller-level cloud,
// the real node agent side (eni.CRDV2 + networkService in CRD mode) and a kubelet simulator
// that owns the ground truth (which pods exist, which sandboxes are live, which DELs were
// processed). Monitors observe every Node CR / NodeRuntime write at the API server and every
// cloud call at invocation.

import (
	"context"
	"fmt"
	"math/rand"
	"os"
	"sort"
	"strings"
	"sync"
	"sync/atomic"
	"time"

	corev1 "k8s.io/api/core/v1"
	apierrors "k8s.io/apimachinery/pkg/api/errors"
	"k8s.io/apimachinery/pkg/api/resource"
	metav1 "k8s.io/apimachinery/pkg/apis/meta/v1"
	"k8s.io/apimachinery/pkg/runtime/schema"
	k8stypes "k8s.io/apimachinery/pkg/types"
	"k8s.io/client-go/tools/record"
	"sigs.k8s.io/controller-runtime/pkg/client"
	"sigs.k8s.io/controller-runtime/pkg/reconcile"

	"github.com/AliyunContainerService/terway/daemon"
	"github.com/AliyunContainerService/terway/pkg/apis/network.alibabacloud.com/v1beta1"
	mnode "github.com/AliyunContainerService/terway/pkg/controller/multi-ip/node"
	"github.com/AliyunContainerService/terway/pkg/eni"
	"github.com/AliyunContainerService/terway/pkg/k8s"
	"github.com/AliyunContainerService/terway/pkg/storage"
	"github.com/AliyunContainerService/terway/pkg/vswitch"
	"github.com/AliyunContainerService/terway/rpc"
	"github.com/AliyunContainerService/terway/types"
	tdaemon "github.com/AliyunContainerService/terway/types/daemon"

	"verifharness/apisim"
	"verifharness/cloudsim"
	"verifharness/monitor"
)

type ipamCfg struct {
	V4, V6       bool
	Trunk, ERDMA bool
	Adapters     int
	V4Per, V6Per int
	MinPool      int
	MaxPool      int
	Pods         int
	Steps        int
	Initial      string // empty | enis | takeover | partial | deleting-eni
	Faults       map[int]cloudsim.Fault
	APIFaults    bool
	NoRuntimeObj bool // the NodeRuntime object does not exist yet
	VSWFree      int64
}

type ipamPod struct {
	Name      string
	UID       string
	RDMA      bool
	Skip      string // "" | hostnet | podeni
	Exists    bool   // pod object present on the node
	Exited    bool
	Sandbox   bool // a sandbox of this pod is live (ADD acknowledged, DEL not processed)
	DelDone   bool // the agent processed a DEL for this UID
	Flushed   bool // ... and a NodeRuntime flush succeeded afterwards
	Container string
	RepV4     string
	RepV6     string
	GoneAt    int  // reconcile counter when (gone && DelDone && Flushed) became true
	AddFailed bool // the latest ADD failed (the agent rolled it back)
	Restarts  int  // sandboxes of this UID that were torn down and replaced while the pod stayed
}

type ipamMon struct {
	mu        sync.Mutex
	clock     int64
	r         *monitor.Result
	prop      string
	hid       int
	cfg       ipamCfg
	pods      map[string]*ipamPod // by "ns/name" (current incarnation)
	byUID     map[string]*ipamPod
	lastCR    *v1beta1.Node
	events    []string
	reconc    int
	creating  map[string]bool // ENIs created by the controller and not yet attached / deleted
	createInf int
	crWrites  int
	newBind   int
	releases  int
	drifted   map[string]bool // addresses an out-of-band cloud change took away
	createdOK map[string]bool // interfaces whose create call returned the id to the controller
	delFailed map[string]bool // ... whose delete call failed
	writeLost map[string]bool // ... that no stored record named when a write of the Node record failed by injection
	everBound map[string]bool // "ip|ns/name": the record has bound the address to a pod of that name at some point
	vswFull   map[string]bool // vSwitches the cloud reported exhausted to the controller (pool cache TTL 10 min: for the whole history)
	owedKnow  map[string]bool // interfaces the controller created whose record write was refused: until its next successful
	// listing of the node's interfaces it owes itself a full sync and may not plan on the stored record alone
	cl        client.Client
}

func (m *ipamMon) now() int64 { m.clock++; return m.clock }
func (m *ipamMon) ev(f string, a ...any) {
	if os.Getenv("VERIF_ONLY_HISTORY") != "" {
		fmt.Printf("EV %d r%d %s\n", m.clock, m.reconc, fmt.Sprintf(f, a...))
	}
	if len(m.events) < 3000 {
		m.events = append(m.events, fmt.Sprintf("%d r%d ", m.clock, m.reconc)+fmt.Sprintf(f, a...))
	}
}
func (m *ipamMon) replay() map[string]any {
	ev := m.events
	if len(ev) > 300 {
		ev = ev[len(ev)-300:]
	}
	return map[string]any{"history": m.hid, "config": m.cfg, "last_events": append([]string(nil), ev...)}
}
func (m *ipamMon) violate(prop, class, site, detail string) {
	if prop != m.prop {
		m.r.Count("sibling:"+class, 1)
		return
	}
	m.r.Violate(class, site, fmt.Sprintf("history %d: %s", m.hid, detail), m.replay())
}

// live: may the control plane NOT yet reclaim what is bound to this pod?
func (m *ipamMon) liveReason(podID, uid string, runtime *v1beta1.NodeRuntime) string {
	p := m.pods[podID]
	if uid != "" {
		if q, ok := m.byUID[uid]; ok {
			p = q
		}
	} else {
		// an entry without UID may belong to any incarnation of the name: a consumer that exists, else one
		// whose sandbox is still there
		var exists, sandbox *ipamPod
		for _, q := range m.byUID {
			if "ns/"+q.Name != podID || q.Skip != "" {
				continue
			}
			if q.Exists && !q.Exited {
				exists = q
			}
			if q.Sandbox {
				sandbox = q
			}
		}
		switch {
		case exists != nil:
			p = exists
		case sandbox != nil:
			p = sandbox
		default:
			return ""
		}
	}
	if p == nil {
		return ""
	}
	if p.Exists && !p.Exited && (uid == "" || p.UID == uid) {
		return "pod object exists on the node"
	}
	if p.Sandbox && (uid == "" || p.UID == uid) {
		return "pod object is gone but its sandbox is still live (no CNI DEL processed)"
	}
	if uid != "" && p.UID == uid {
		if runtime == nil {
			return "no NodeRuntime report exists"
		}
		st, ok := runtime.Status.Pods[uid]
		if !ok {
			return "NodeRuntime has no entry for the pod's UID"
		}
		deleted, initial := st.Status[v1beta1.CNIStatusDeleted], st.Status[v1beta1.CNIStatusInitial]
		if deleted == nil {
			return "NodeRuntime does not report the sandbox teardown"
		}
		if initial != nil && deleted.LastUpdateTime.Time.Before(initial.LastUpdateTime.Time) {
			return "NodeRuntime's latest report for the UID is 'initial', not 'deleted'"
		}
	}
	return ""
}

// observeNodeCR is called by the API-server observer for every successful write of the Node CR.
func (m *ipamMon) observeNodeCR(before, after *v1beta1.Node) {
	runtime := &v1beta1.NodeRuntime{}
	if err := m.cl.Get(context.Background(), client.ObjectKey{Name: "node-1"}, runtime); err != nil {
		runtime = nil
	}
	m.mu.Lock()
	defer m.mu.Unlock()
	m.now()
	m.crWrites++
	if after == nil {
		return
	}
	type bind struct{ eni, ip, fam string }
	byPod := map[string][]bind{}
	for id, e := range after.Status.NetworkInterfaces {
		for fam, set := range map[string]map[string]*v1beta1.IP{"v4": e.IPv4, "v6": e.IPv6} {
			for ip, v := range set {
				if v == nil || v.PodID == "" {
					continue
				}
				byPod[v.PodID] = append(byPod[v.PodID], bind{id, ip, fam})
				// new binding?
				var old *v1beta1.IP
				if before != nil {
					if be := before.Status.NetworkInterfaces[id]; be != nil {
						if fam == "v4" {
							old = be.IPv4[ip]
						} else {
							old = be.IPv6[ip]
						}
					}
				}
				if m.everBound == nil {
					m.everBound = map[string]bool{}
				}
				m.everBound[ip+"|"+v.PodID] = true
				if old == nil || old.PodID != v.PodID {
					m.newBind++
					// an address a running pod reports and the record never bound to it (take-over) belongs to that
					// pod: binding it to anybody else leaves the reporter without it for good
					for _, q := range m.pods {
						rep := q.RepV4
						if fam == "v6" {
							rep = q.RepV6
						}
						if rep != ip || "ns/"+q.Name == v.PodID || !q.Exists || q.Exited || q.Skip != "" || m.drifted[ip] || m.everBound[ip+"|ns/"+q.Name] {
							continue
						}
						m.violate("C02", "C02.reported-address-given-away", fam, fmt.Sprintf("address %s, which the running pod %s reports and the record never bound to it, was bound to %s", ip, q.Name, v.PodID))
					}
					m.ev("bind %s -> %s (%s on %s, ip status %s, eni status %s)", v.PodID, ip, fam, id, v.Status, e.Status)
					if v.Status != v1beta1.IPStatusValid {
						m.violate("C02", "C02.bind-invalid-address", "ip-status="+string(v.Status), fmt.Sprintf("address %s was bound to %s while its status is %s", ip, v.PodID, v.Status))
					}
					if e.Status != "InUse" {
						m.violate("C02", "C02.bind-invalid-address", "eni-status="+e.Status, fmt.Sprintf("address %s on %s was bound to %s while the interface is %s", ip, id, v.PodID, e.Status))
					}
				}
				if e.Status == "Deleting" {
					if be := func() *v1beta1.NetworkInterface {
						if before == nil {
							return nil
						}
						return before.Status.NetworkInterfaces[id]
					}(); be != nil && be.Status != "Deleting" {
						m.violate("C02", "C02.bound-on-deleting-eni", fam, fmt.Sprintf("interface %s was marked Deleting while %s is still bound to %s", id, ip, v.PodID))
					}
				}
				if p := m.pods[v.PodID]; p != nil {
					rdmaENI := e.NetworkInterfaceTrafficMode == v1beta1.NetworkInterfaceTrafficModeHighPerformance
					if p.RDMA && m.cfg.ERDMA && !rdmaENI {
						m.violate("C02", "C02.rdma-placement", "rdma-pod-on-standard-eni", fmt.Sprintf("RDMA pod %s bound to %s on the standard interface %s", v.PodID, ip, id))
					}
					if !p.RDMA && m.cfg.ERDMA && rdmaENI {
						m.violate("C02", "C02.rdma-placement", "normal-pod-on-rdma-eni", fmt.Sprintf("pod %s bound to %s on the RDMA interface %s", v.PodID, ip, id))
					}
					rep := p.RepV4
					if fam == "v6" {
						rep = p.RepV6
					}
					if rep != "" && rep != ip && (v.PodUID == "" || v.PodUID == p.UID) {
						m.violate("C02", "C02.readopted-onto-other-address", fam, fmt.Sprintf("pod %s reports %s but the record binds it to %s", v.PodID, rep, ip))
					}
				}
			}
		}
	}
	for pod, bs := range byPod {
		n4, n6 := 0, 0
		enis := map[string]bool{}
		for _, b := range bs {
			if b.fam == "v4" {
				n4++
			} else {
				n6++
			}
			enis[b.eni] = true
		}
		if n4 > 1 || n6 > 1 {
			m.violate("C02", "C02.pod-bound-twice", fmt.Sprintf("v4=%d/v6=%d", min(n4, 2), min(n6, 2)), fmt.Sprintf("pod %s is bound to %d IPv4 and %d IPv6 addresses: %v", pod, n4, n6, bs))
		}
		if len(enis) > 1 {
			m.violate("C02", "C02.pod-on-two-interfaces", "dual-stack", fmt.Sprintf("pod %s has addresses on different interfaces: %v", pod, bs))
		}
	}
	// C03(a): what did this write reclaim?
	// A pod whose address the cloud took away out of band (drift) is outside the property: terway has
	// to drop the vanished address and (dual stack) roll the pod's other address back.
	driftPods := map[string]bool{}
	if before != nil {
		for id, be := range before.Status.NetworkInterfaces {
			ae := after.Status.NetworkInterfaces[id]
			for _, fam := range []string{"v4", "v6"} {
				set := be.IPv4
				if fam == "v6" {
					set = be.IPv6
				}
				for ip, bv := range set {
					if bv == nil || bv.PodID == "" || !m.drifted[ip] {
						continue
					}
					gone := ae == nil
					if !gone {
						if fam == "v4" {
							gone = ae.IPv4[ip] == nil
						} else {
							gone = ae.IPv6[ip] == nil
						}
					}
					if gone {
						driftPods[bv.PodID] = true
					}
				}
			}
		}
	}
	if before != nil {
		for id, be := range before.Status.NetworkInterfaces {
			ae := after.Status.NetworkInterfaces[id]
			for fam, set := range map[string]map[string]*v1beta1.IP{"v4": be.IPv4, "v6": be.IPv6} {
				for ip, bv := range set {
					if bv == nil || bv.PodID == "" {
						continue
					}
					var av *v1beta1.IP
					if ae != nil {
						if fam == "v4" {
							av = ae.IPv4[ip]
						} else {
							av = ae.IPv6[ip]
						}
					}
					what := ""
					switch {
					case ae == nil:
						what = "interface record removed"
					case av == nil:
						what = "address record removed"
					case av.PodID == "":
						what = "unbound"
					case av.PodID != bv.PodID || (bv.PodUID != "" && av.PodUID != "" && av.PodUID != bv.PodUID):
						what = "re-bound to another pod"
					case av.Status == v1beta1.IPStatusDeleting && bv.Status != v1beta1.IPStatusDeleting:
						what = "marked Deleting"
					case ae.Status == "Deleting" && be.Status != "Deleting":
						what = "interface marked Deleting"
					}
					if what == "" {
						continue
					}
					m.releases++
					m.ev("reclaim %s of %s (%s): %s", ip, bv.PodID, bv.PodUID, what)
					if driftPods[bv.PodID] {
						m.r.Count("reclaims_after_cloud_drift_not_judged", 1)
						continue
					}
					if why := m.liveReason(bv.PodID, bv.PodUID, runtime); why != "" {
						site := strings.ReplaceAll(what, " ", "-")
						// a pod recreated under the same name took the entry over (the controller identifies
						// bindings by name): one root cause, its own site
						successor, incarnations := false, 0
						for _, q := range m.byUID {
							if "ns/"+q.Name != bv.PodID {
								continue
							}
							incarnations++
							if q.Exists && q.UID != bv.PodUID && bv.PodUID != "" {
								successor = true
							}
						}
						if bv.PodUID == "" && incarnations > 1 {
							successor = true
						}
						restarted := false
						if q := m.byUID[bv.PodUID]; q != nil && bv.PodUID != "" && q.Restarts > 0 && q.Sandbox {
							restarted = true
						}
						switch {
						case successor:
							site += "/same-name-successor"
						case restarted && strings.HasPrefix(why, "pod object is gone but its sandbox"):
							// the teardown report of the UID's earlier sandbox is still in NodeRuntime
							site += "/sandbox-restarted"
						case bv.PodUID == "" && !strings.HasPrefix(why, "pod object exists"):
							site += "/no-uid" // legacy entry: nothing to correlate a teardown report with
						}
						m.violate("C03", "C03.reclaimed-while-live", "record/"+site, fmt.Sprintf("address %s bound to %s (uid %q) was %s in the Node record although %s", ip, bv.PodID, bv.PodUID, what, why))
					}
				}
			}
		}
	}
	m.lastCR = after.DeepCopy()
}

// observeRuntime: every successful NodeRuntime write.
func (m *ipamMon) observeRuntime(before, after *v1beta1.NodeRuntime) {
	m.mu.Lock()
	defer m.mu.Unlock()
	m.now()
	if after == nil {
		return
	}
	for uid, st := range after.Status.Pods {
		d := st.Status[v1beta1.CNIStatusDeleted]
		if d == nil {
			continue
		}
		had := false
		if before != nil {
			if bs := before.Status.Pods[uid]; bs != nil && bs.Status[v1beta1.CNIStatusDeleted] != nil {
				had = true
			}
		}
		if had {
			continue
		}
		m.ev("runtime: uid %s (%s) reported deleted", uid, st.PodID)
		p := m.byUID[uid]
		if p == nil {
			continue // a uid the kubelet simulator never had (generated initial record)
		}
		if !p.DelDone && p.Exists && !p.AddFailed {
			m.violate("C03", "C03.teardown-reported-without-del", "pod-exists", fmt.Sprintf("NodeRuntime reports teardown of %s (uid %s) although no DEL was processed for it and the pod still exists", st.PodID, uid))
		}
		if !p.DelDone && !p.Exists {
			// the agent's own collection of a pod it verified to be gone (gcPods / cleanRuntimeNode): that is the
			// teardown the property accepts in place of a DEL
			p.Sandbox, p.DelDone = false, true
			m.r.Count("teardowns_by_agent_gc", 1)
		}
		if !p.Exists {
			p.Flushed = true
		}
	}
}

// markWriteLost (mu held): a write of the Node record is about to fail; interfaces the controller knows of and the
// stored record does not name lose their only trace if the controller does not keep them elsewhere.
func (m *ipamMon) markWriteLost() {
	if m.writeLost == nil {
		m.writeLost = map[string]bool{}
	}
	if m.owedKnow == nil {
		m.owedKnow = map[string]bool{}
	}
	for id := range m.createdOK {
		if m.lastCR == nil || m.lastCR.Status.NetworkInterfaces[id] == nil {
			m.writeLost[id] = true
			m.owedKnow[id] = true
		}
	}
}

// ---- cloud listener ----

func (m *ipamMon) OnInvoke(c *cloudsim.CtrlCloud, call *cloudsim.CCall) {
	if !call.Mutating {
		return
	}
	runtime := (*v1beta1.NodeRuntime)(nil)
	m.mu.Lock()
	defer m.mu.Unlock()
	m.now()
	m.ev("cloud> %s eni=%s n=%d/%d ips=%v fault=%s", call.API, call.ENI, call.N4, call.N6, call.IPs, call.Fault)
	slots := m.cfg.Adapters - 1
	snap := c.SnapshotLocked()
	switch call.API {
	case "CreateNetworkInterface":
		if call.N4 > m.cfg.V4Per || call.N6 > m.cfg.V6Per && m.cfg.V6 {
			m.violate("C08", "C08.create-over-limit", "addresses", fmt.Sprintf("CreateNetworkInterface with %d IPv4 / %d IPv6, per-interface limits %d / %d", call.N4, call.N6, m.cfg.V4Per, m.cfg.V6Per))
		}
		if m.vswFull[call.VSW] {
			for id, v := range c.VSWs {
				if id != call.VSW && !m.vswFull[id] && v.Free > 0 {
					m.violate("C17", "C17.exhausted-vswitch-chosen-again", "controller/create", fmt.Sprintf("CreateNetworkInterface names %s, which the cloud reported exhausted earlier in this history (cache TTL 10 min), although %s has %d free addresses", call.VSW, id, v.Free))
				}
			}
		}
		attached := 0
		for _, e := range snap.ENIs {
			if !e.Deleted && e.InstanceID == "i-1" && e.Type != "Member" && e.Status != "Available" {
				attached++
			}
		}
		recorded := attached
		if m.lastCR != nil {
			recorded = len(m.lastCR.Status.NetworkInterfaces)
		}
		pending := len(m.creating) + m.createInf
		// the controller is judged on what it can know: the smaller of cloud truth and its stored record, plus the
		// attached interfaces it created itself and whose record write it saw refused (it owes itself a full sync
		// before it plans again)
		for id, e := range snap.ENIs {
			if m.owedKnow[id] && !e.Deleted && e.InstanceID == "i-1" && e.Status != "Available" && (m.lastCR == nil || m.lastCR.Status.NetworkInterfaces[id] == nil) {
				recorded++
			}
		}
		if min(attached, recorded)+pending >= slots {
			m.violate("C08", "C08.create-over-quota", "interfaces", fmt.Sprintf("CreateNetworkInterface while %d interfaces are attached (%d recorded) and %d created-not-yet-attached, the instance allows %d", attached, recorded, pending, slots))
		}
		m.createInf++
	case "AssignPrivateIpAddresses", "AssignIpv6Addresses":
		e, ok := snap.ENIs[call.ENI]
		if ok && m.vswFull[e.VSW] {
			for id, v := range c.VSWs {
				if id != e.VSW && !m.vswFull[id] && v.Free > 0 {
					m.violate("C17", "C17.exhausted-vswitch-chosen-again", "controller/assign", fmt.Sprintf("%s on %s, whose vSwitch %s the cloud reported exhausted earlier in this history (cache TTL 10 min), although %s has %d free addresses", call.API, call.ENI, e.VSW, id, v.Free))
				}
			}
		}
		if ok {
			cur, lim := len(e.V4), m.cfg.V4Per
			if call.API == "AssignIpv6Addresses" {
				cur, lim = len(e.V6), m.cfg.V6Per
			}
			if m.lastCR != nil {
				if re := m.lastCR.Status.NetworkInterfaces[call.ENI]; re != nil {
					rc := len(re.IPv4)
					if call.API == "AssignIpv6Addresses" {
						rc = len(re.IPv6)
					}
					cur = min(cur, rc)
				}
			}
			if cur+call.N4+call.N6 > lim {
				m.violate("C08", "C08.assign-over-limit", call.API, fmt.Sprintf("%s of %d on %s which has %d, per-interface limit %d", call.API, call.N4+call.N6, call.ENI, cur, lim))
			}
		}
	case "UnAssignPrivateIpAddresses", "UnAssignIpv6Addresses", "DetachNetworkInterface", "DeleteNetworkInterface":
		if m.lastCR == nil {
			return
		}
		e := m.lastCR.Status.NetworkInterfaces[call.ENI]
		if e == nil {
			return
		}
		named := map[string]bool{}
		for _, ip := range call.IPs {
			named[ip] = true
		}
		whole := strings.HasPrefix(call.API, "De")
		for _, set := range []map[string]*v1beta1.IP{e.IPv4, e.IPv6} {
			for ip, v := range set {
				if v == nil || v.PodID == "" || (!whole && !named[ip]) {
					continue
				}
				if why := m.liveReason(v.PodID, v.PodUID, runtime); why != "" && !strings.HasPrefix(why, "NodeRuntime") && !strings.HasPrefix(why, "no NodeRuntime") {
					m.violate("C03", "C03.reclaimed-while-live", "cloud/"+call.API, fmt.Sprintf("%s on %s touches %s which the stored record binds to %s although %s", call.API, call.ENI, ip, v.PodID, why))
				}
			}
		}
	}
}

func (m *ipamMon) OnReturn(c *cloudsim.CtrlCloud, call *cloudsim.CCall) {
	if !call.Mutating {
		if call.API == "DescribeNetworkInterface" && call.Err == "" && call.Instance != "" {
			m.mu.Lock()
			m.owedKnow = nil // the controller has seen what is attached
			m.mu.Unlock()
		}
		return
	}
	m.mu.Lock()
	defer m.mu.Unlock()
	m.ev("cloud< %s eni=%s res=%v err=%q", call.API, call.ENI, call.Result, shorten(call.Err, 80))
	if strings.Contains(call.Err, "IpNotEnough") && (call.API == "CreateNetworkInterface" || call.API == "AssignPrivateIpAddresses" || call.API == "AssignIpv6Addresses") {
		vsw := call.VSW
		if e, ok := c.ENIs[call.ENI]; ok && vsw == "" {
			vsw = e.VSW
		}
		if vsw != "" {
			if m.vswFull == nil {
				m.vswFull = map[string]bool{}
			}
			m.vswFull[vsw] = true
			m.ev("vSwitch %s reported exhausted", vsw)
		}
	}
	switch call.API {
	case "CreateNetworkInterface":
		m.createInf--
		if call.ENI != "" && call.Err == "" {
			// (a create that failed after its effect never told the controller the id: it can not count it)
			m.creating[call.ENI] = true
			m.createdOK[call.ENI] = true
		}
	case "AttachNetworkInterface":
		if e, ok := c.ENIs[call.ENI]; ok && e.Status == "InUse" {
			delete(m.creating, call.ENI)
		}
	case "DeleteNetworkInterface":
		if e, ok := c.ENIs[call.ENI]; ok && e.Deleted {
			delete(m.creating, call.ENI)
		} else if call.Err != "" {
			if m.delFailed == nil {
				m.delFailed = map[string]bool{}
			}
			m.delFailed[call.ENI] = true
		}
	}
}

// ---- history ----

type ipamHist struct {
	c         *ctxT
	cfg       ipamCfg
	mon       *ipamMon
	hooks     *apisim.Hooks
	cl        client.WithWatch
	cloud     *cloudsim.CtrlCloud
	vsw       *vswitch.SwitchPool
	ctl       *mnode.ReconcileNode
	agent     *eni.CRDV2
	svc       *daemon.VerifService
	rng       *rand.Rand
	uidGen    int
	apiMu     sync.Mutex
	apiFlt    map[string]int // verb/kind -> remaining injected failures
	apiAt     map[string]int // kind -> position (1-based) of the one write that fails
	apiAtKind string         // conflict | lost
	apiSeen   map[string]int
	aging     atomic.Bool
}

func genIpamCfg(rng *rand.Rand) ipamCfg {
	cfg := ipamCfg{Adapters: 2 + rng.Intn(5), V4Per: 2 + rng.Intn(9), Pods: 3 + rng.Intn(10), Steps: 20 + rng.Intn(40), VSWFree: 5000}
	switch rng.Intn(5) {
	case 0, 1:
		cfg.V4, cfg.V6 = true, true
	case 2:
		cfg.V6 = true
	default:
		cfg.V4 = true
	}
	cfg.V6Per = cfg.V4Per
	cfg.Trunk = cfg.Adapters > 2 && rng.Intn(4) == 0
	cfg.ERDMA = cfg.Adapters > 3 && cfg.V4 && rng.Intn(5) == 0
	capac := (cfg.Adapters - 1) * cfg.V4Per
	cfg.MinPool = rng.Intn(capac/3 + 1)
	cfg.MaxPool = cfg.MinPool + rng.Intn(capac/2+2)
	cfg.Initial = []string{"empty", "empty", "enis", "takeover", "takeover", "partial", "partial", "deleting-eni", "shrink", "inflight-eni"}[rng.Intn(10)]
	if cfg.Initial == "shrink" {
		cfg.MinPool, cfg.MaxPool = 0, rng.Intn(2)
	}
	cfg.NoRuntimeObj = rng.Intn(6) == 0
	return cfg
}

func newIpamHist(c *ctxT, prop string, hid int, cfg ipamCfg, seed int64) *ipamHist {
	shortBackoffs()
	h := &ipamHist{c: c, cfg: cfg, rng: rand.New(rand.NewSource(seed)), apiFlt: map[string]int{}}
	h.mon = &ipamMon{r: c.R, prop: prop, hid: hid, cfg: cfg, pods: map[string]*ipamPod{}, byUID: map[string]*ipamPod{}, creating: map[string]bool{}, drifted: map[string]bool{}, createdOK: map[string]bool{}}
	h.cloud = cloudsim.NewCtrlCloud(func() int64 { return 0 }, seed)
	h.cloud.AddVSW("vsw-1", "zone-a", 1, cfg.VSWFree)
	h.cloud.AddVSW("vsw-2", "zone-a", 2, 5000) // the second vSwitch always has room
	h.cloud.AddInstance("i-1", cfg.Adapters-1, cfg.V4Per, cfg.V6Per, 10)
	h.cloud.Plan = cfg.Faults
	if cfg.V4 && cfg.V6 && (cfg.Initial == "partial" || cfg.Initial == "takeover") && h.rng.Intn(2) == 0 {
		// the cloud refuses IPv6 for a while: pods of a node that was switched to dual stack keep waiting for theirs
		h.cloud.FailAPI = map[string]int{"AssignIpv6Addresses": 2 + h.rng.Intn(4)}
	}
	kn := &corev1.Node{ObjectMeta: metav1.ObjectMeta{Name: "node-1", UID: "node-uid"}}
	cr := &v1beta1.Node{ObjectMeta: metav1.ObjectMeta{Name: "node-1"}}
	cr.Spec.NodeMetadata = v1beta1.NodeMetadata{RegionID: "cn-sim", InstanceType: "ecs.sim", InstanceID: "i-1", ZoneID: "zone-a"}
	cr.Spec.NodeCap = v1beta1.NodeCap{Adapters: cfg.Adapters, TotalAdapters: cfg.Adapters + 10, IPv4PerAdapter: cfg.V4Per, IPv6PerAdapter: cfg.V6Per, MemberAdapterLimit: 10, EriQuantity: 1}
	cr.Spec.ENISpec = &v1beta1.ENISpec{EnableIPv4: cfg.V4, EnableIPv6: cfg.V6, EnableTrunk: cfg.Trunk, EnableERDMA: cfg.ERDMA, VSwitchOptions: []string{"vsw-1", "vsw-2"}, SecurityGroupIDs: []string{"sg-1"},
		VSwitchSelectPolicy: v1beta1.SelectionPolicy([]string{"ordered", "random", "most"}[h.rng.Intn(3)]), Tag: map[string]string{"k": "v"}}
	cr.Spec.Pool = &v1beta1.PoolSpec{MinPoolSize: cfg.MinPool, MaxPoolSize: cfg.MaxPool}
	sec := cfg.Adapters - 1
	if cfg.Trunk {
		cr.Spec.Flavor = append(cr.Spec.Flavor, v1beta1.Flavor{NetworkInterfaceType: v1beta1.ENITypeTrunk, NetworkInterfaceTrafficMode: v1beta1.NetworkInterfaceTrafficModeStandard, Count: 1})
		sec--
	}
	if cfg.ERDMA {
		cr.Spec.Flavor = append(cr.Spec.Flavor, v1beta1.Flavor{NetworkInterfaceType: v1beta1.ENITypeSecondary, NetworkInterfaceTrafficMode: v1beta1.NetworkInterfaceTrafficModeHighPerformance, Count: 1})
		sec--
	}
	cr.Spec.Flavor = append(cr.Spec.Flavor, v1beta1.Flavor{NetworkInterfaceType: v1beta1.ENITypeSecondary, NetworkInterfaceTrafficMode: v1beta1.NetworkInterfaceTrafficModeStandard, Count: sec})
	h.hooks = &apisim.Hooks{}
	objs := []client.Object{kn, cr}
	if !cfg.NoRuntimeObj {
		objs = append(objs, &v1beta1.NodeRuntime{ObjectMeta: metav1.ObjectMeta{Name: "node-1"}})
	}
	h.cl = apisim.New(h.hooks, objs...)
	h.mon.cl = h.cl
	h.vsw, _ = vswitch.NewSwitchPool(100, "10m")
	h.ctl = mnode.NewVerifReconcileNode(h.cl, apisim.Scheme(), h.cloud, h.vsw, &record.FakeRecorder{}, time.Hour, 0)
	h.agent = eni.NewVerifCRDV2(h.cl, apisim.Scheme(), "node-1")
	svcCIDR := &types.IPNetSet{}
	svcCIDR.SetIPNet("172.16.0.0/16")
	kube := k8s.NewVerifK8S(h.cl, tdaemon.ModeENIMultiIP, kn, storage.NewMemoryStorage(), svcCIDR, cfg.ERDMA)
	mgr := eni.NewManager(0, 0, 0, 0, []eni.NetworkInterface{h.agent}, tdaemon.EniSelectionPolicyMostIPs, nil)
	h.svc = daemon.NewVerifService(kube, storage.NewMemoryStorage(), mgr, tdaemon.ModeENIMultiIP, types.IPAMTypeCRD, cfg.V4, cfg.V6, false)
	h.initialRecord()
	h.cloud.Lis = h.mon
	h.hooks.Set(func(hk *apisim.Hooks) {
		hk.ObserveWrite = func(verb string, before, after client.Object) {
			switch a := after.(type) {
			case *v1beta1.Node:
				b, _ := before.(*v1beta1.Node)
				h.mon.observeNodeCR(b, a)
			case *v1beta1.NodeRuntime:
				b, _ := before.(*v1beta1.NodeRuntime)
				h.mon.observeRuntime(b, a)
			}
		}
		hk.BeforeGet = func(ctx context.Context, key client.ObjectKey, obj client.Object) error {
			if _, ok := obj.(*corev1.Pod); !ok {
				return nil
			}
			h.apiMu.Lock()
			defer h.apiMu.Unlock()
			if h.apiFlt["podget"] > 0 {
				h.apiFlt["podget"]--
				h.mon.mu.Lock()
				h.mon.ev("api: injected failure of GET pod %s", key.Name)
				h.mon.mu.Unlock()
				return apierrors.NewServiceUnavailable("injected: read failed")
			}
			return nil
		}
		hk.BeforeWrite = func(ctx context.Context, verb string, obj client.Object) error {
			kind := ""
			switch obj.(type) {
			case *v1beta1.Node:
				kind = "node"
			case *v1beta1.NodeRuntime:
				kind = "runtime"
			default:
				return nil
			}
			if rt, ok := obj.(*v1beta1.NodeRuntime); ok {
				h.spreadReports(rt)
			}
			h.apiMu.Lock()
			defer h.apiMu.Unlock()
			if h.apiAt != nil {
				if h.apiSeen == nil {
					h.apiSeen = map[string]int{}
				}
				h.apiSeen[kind]++
				if h.apiSeen[kind] == h.apiAt[kind] {
					h.mon.mu.Lock()
					h.mon.ev("api: injected %s of %s #%d on %s", h.apiAtKind, verb, h.apiSeen[kind], kind)
					if kind == "node" {
						h.mon.markWriteLost()
					}
					h.mon.mu.Unlock()
					if h.apiAtKind == "conflict+describe" {
						// ... and the listing of the node's interfaces that the owed full sync starts with is throttled once
						h.cloud.Mutate(func(c *cloudsim.CtrlCloud) {
							if c.FailAPI == nil {
								c.FailAPI = map[string]int{}
							}
							c.FailAPI["DescribeNetworkInterface"] = 1
						})
					}
					if strings.HasPrefix(h.apiAtKind, "conflict") {
						return apierrors.NewConflict(schema.GroupResource{Group: "network.alibabacloud.com", Resource: kind}, "node-1", fmt.Errorf("injected conflict"))
					}
					return apierrors.NewServiceUnavailable("injected: write lost")
				}
			}
			if h.apiFlt[kind] > 0 {
				h.apiFlt[kind]--
				h.mon.mu.Lock()
				h.mon.ev("api: injected failure of %s on %s", verb, kind)
				if kind == "node" {
					h.mon.markWriteLost()
				}
				h.mon.mu.Unlock()
				if h.rng.Intn(2) == 0 {
					return apierrors.NewConflict(schema.GroupResource{Group: "network.alibabacloud.com", Resource: kind}, "node-1", fmt.Errorf("injected conflict"))
				}
				return apierrors.NewServiceUnavailable("injected: write lost")
			}
			return nil
		}
	})
	h.afterInitial()
	return h
}

// initialRecord prepares cloud + Node CR status as a previous controller (version) left them.
func (h *ipamHist) initialRecord() {
	cfg := h.cfg
	if cfg.Initial == "empty" {
		return
	}
	cr := &v1beta1.Node{}
	_ = h.cl.Get(context.Background(), client.ObjectKey{Name: "node-1"}, cr)
	cr.Status.NetworkInterfaces = map[string]*v1beta1.NetworkInterface{}
	nEni := 1 + h.rng.Intn(min(cfg.Adapters-1, 3))
	if cfg.Initial == "surplus-trunk" {
		// every slot is taken and two of the interfaces are trunks (a trunk created twice: the record of the first
		// was lost with a failed status write and a controller restart)
		nEni = cfg.Adapters - 1
	}
	podIdx := 0
	for k := 0; k < nEni; k++ {
		var e *cloudsim.CENI
		ctype, rtype := "Secondary", v1beta1.ENITypeSecondary
		if cfg.Initial == "surplus-trunk" && k < 2 {
			ctype, rtype = "Trunk", v1beta1.ENITypeTrunk
		}
		h.cloud.Mutate(func(c *cloudsim.CtrlCloud) {
			e = c.InjectENI(&cloudsim.CENI{Type: ctype, TrafficMode: "Standard", Status: "InUse", InstanceID: "i-1", VSW: "vsw-1", Tags: map[string]string{"creator": "terway"}})
		})
		ni := &v1beta1.NetworkInterface{ID: e.ID, Status: "InUse", MacAddress: e.MAC, VSwitchID: "vsw-1", PrimaryIPAddress: e.Primary, NetworkInterfaceType: rtype,
			NetworkInterfaceTrafficMode: v1beta1.NetworkInterfaceTrafficModeStandard, IPv4: map[string]*v1beta1.IP{}, IPv6: map[string]*v1beta1.IP{}, IPv4CIDR: "10.1.0.0/16", IPv6CIDR: "fd00:1::/64"}
		n := 1 + h.rng.Intn(cfg.V4Per)
		h.cloud.Mutate(func(c *cloudsim.CtrlCloud) {
			ce := c.ENIs[e.ID]
			for i := 1; i < n; i++ {
				ce.V4 = append(ce.V4, fmt.Sprintf("10.1.%d.%d", 100+k, i))
			}
			if cfg.V6 {
				n6 := n
				if cfg.Initial == "partial" && h.rng.Intn(2) == 0 {
					n6 = h.rng.Intn(2) // the pod's interface has (almost) no spare IPv6: a careless pick takes one elsewhere
				}
				for i := 0; i < n6; i++ {
					ce.V6 = append(ce.V6, fmt.Sprintf("fd00:1::%x:%x", 100+k, i+1))
				}
			}
			for i, a := range ce.V4 {
				ni.IPv4[a] = &v1beta1.IP{IP: a, Primary: i == 0, Status: v1beta1.IPStatusValid}
			}
			for _, a := range ce.V6 {
				ni.IPv6[a] = &v1beta1.IP{IP: a, Status: v1beta1.IPStatusValid}
			}
		})
		if !cfg.V4 {
			// ipv6-only records still list the primary IPv4
		}
		switch cfg.Initial {
		case "takeover", "partial", "shrink":
			// pods of the previous version: they run, report their addresses; the record has PodID but no PodUID
			var v4s, v6s []string
			for a := range ni.IPv4 {
				v4s = append(v4s, a)
			}
			for a := range ni.IPv6 {
				v6s = append(v6s, a)
			}
			sort.Strings(v4s)
			sort.Strings(v6s)
			for i := 0; i < min(len(v4s), 2) && podIdx < cfg.Pods; i++ {
				p := h.newPod(podIdx, false)
				podIdx++
				if cfg.V4 {
					p.RepV4 = v4s[i]
				}
				if cfg.V6 && i < len(v6s) {
					p.RepV6 = v6s[i]
				}
				p.Sandbox = true
				p.Container = "c0"
				h.writePod(p)
				if cfg.V4 {
					ni.IPv4[v4s[i]].PodID = "ns/" + p.Name
				}
				if cfg.V6 && i < len(v6s) && cfg.Initial != "partial" {
					ni.IPv6[v6s[i]].PodID = "ns/" + p.Name
				}
			}
		case "deleting-eni":
			if k == nEni-1 {
				ni.Status = "Deleting"
			}
		case "inflight-eni":
			// the previous controller stopped between the cloud call and the status write: the record still shows
			// the interface on its way (the cloud has finished attaching it)
			if k == nEni-1 {
				ni.Status = []string{"Attaching", "Detaching"}[h.rng.Intn(2)]
			}
		}
		cr.Status.NetworkInterfaces[e.ID] = ni
	}
	cr.Status.NextSyncOpenAPITime = metav1.NewTime(time.Now().Add(time.Hour))
	if err := h.cl.Status().Update(context.Background(), cr); err != nil {
		h.c.R.Inconclusive("cannot write the initial record: " + err.Error())
	}
	h.mon.lastCR = cr.DeepCopy()
	h.mon.everBound = map[string]bool{}
	for _, e := range cr.Status.NetworkInterfaces {
		for _, set := range []map[string]*v1beta1.IP{e.IPv4, e.IPv6} {
			for ip, v := range set {
				if v.PodID != "" {
					h.mon.everBound[ip+"|"+v.PodID] = true
				}
			}
		}
	}
}

// afterInitial runs once the observers are installed: the upgraded control plane's first reconcile is judged too.
func (h *ipamHist) afterInitial() {
	cfg := h.cfg
	switch cfg.Initial {
	case "takeover", "partial", "shrink":
		// the upgraded control plane reconciles once (filling in the pods' UIDs), the restarted agent is
		// re-asked for every running sandbox (kubelet replays ADD), so that both sides know the pods.
		// Half of the time fresh pods are already waiting: they compete, in that first reconcile, for the very
		// addresses the running pods report.
		if h.rng.Intn(2) == 0 {
			h.mon.mu.Lock()
			n := len(h.mon.pods)
			h.mon.mu.Unlock()
			for i := 0; i < 1+h.rng.Intn(2) && n+i < cfg.Pods; i++ {
				fp := h.newPod(n+i, false)
				h.writePod(fp)
				h.mon.note("pod %s created before the first reconcile", fp.Name)
			}
		}
		_, _ = h.reconcile()
		h.mon.mu.Lock()
		var run []*ipamPod
		for _, p := range h.mon.byUID {
			if p.Sandbox {
				run = append(run, p)
			}
		}
		h.mon.mu.Unlock()
		sortPods(run)
		for _, p := range run {
			p.Sandbox = false
			h.cniAdd(p) // sets Sandbox on success; a failed replay leaves the pod for a later ADD retry
			if p.Sandbox {
				h.writePod(p) // kubelet reports the addresses the sandbox got
			}
		}
		h.flush()
	}
}

func (h *ipamHist) newPod(i int, rdma bool) *ipamPod {
	return h.newPodNamed(fmt.Sprintf("p%d", i), rdma)
}

// newPodNamed: also used to recreate a pod under the name of one that is gone (StatefulSet style).
func (h *ipamHist) newPodNamed(name string, rdma bool) *ipamPod {
	h.uidGen++
	p := &ipamPod{Name: name, UID: fmt.Sprintf("uid-%s-%d", name, h.uidGen), RDMA: rdma, Exists: true}
	h.mon.mu.Lock()
	h.mon.pods["ns/"+name] = p
	h.mon.byUID[p.UID] = p
	h.mon.mu.Unlock()
	return p
}

// writePod creates / updates the pod object from the kubelet simulator's state.
func (h *ipamHist) writePod(p *ipamPod) {
	obj := &corev1.Pod{ObjectMeta: metav1.ObjectMeta{Name: p.Name, Namespace: "ns", UID: k8stypes.UID(p.UID), Annotations: map[string]string{}}, Spec: corev1.PodSpec{NodeName: "node-1", Containers: []corev1.Container{{Name: "c", Image: "x"}}}}
	if p.RDMA {
		obj.Spec.Containers[0].Resources.Limits = corev1.ResourceList{"aliyun/erdma": resource.MustParse("1")}
	}
	switch p.Skip {
	case "hostnet":
		obj.Spec.HostNetwork = true
	case "podeni":
		obj.Annotations[types.PodENI] = "true"
	}
	obj.Status.Phase = corev1.PodRunning
	if p.Exited {
		obj.Status.Phase = corev1.PodSucceeded
	}
	obj.Status.PodIP = p.RepV4
	if p.RepV4 == "" {
		obj.Status.PodIP = p.RepV6
	}
	for _, a := range []string{p.RepV4, p.RepV6} {
		if a != "" {
			obj.Status.PodIPs = append(obj.Status.PodIPs, corev1.PodIP{IP: a})
		}
	}
	cur := &corev1.Pod{}
	if err := h.cl.Get(context.Background(), client.ObjectKey{Namespace: "ns", Name: p.Name}, cur); err != nil {
		_ = h.cl.Create(context.Background(), obj)
		return
	}
	cur.Status = obj.Status
	_ = h.cl.Status().Update(context.Background(), cur)
}

func (h *ipamHist) reconcile() (reconcile.Result, error) {
	h.ctl.VerifResetThrottle("node-1", true)
	h.mon.mu.Lock()
	h.mon.reconc++
	h.mon.ev("reconcile")
	h.mon.mu.Unlock()
	if os.Getenv("VERIF_ONLY_HISTORY") != "" {
		sn := h.cloud.Snapshot()
		for id, e := range sn.ENIs {
			fmt.Printf("CLOUD %s type=%s/%s st=%s del=%v v4=%v v6=%v\n", id, e.Type, e.TrafficMode, e.Status, e.Deleted, e.V4, e.V6)
		}
	}
	var res reconcile.Result
	var err error
	func() {
		defer func() {
			if e := recover(); e != nil {
				err = fmt.Errorf("panic: %v", e)
				h.mon.mu.Lock()
				h.mon.violate(h.mon.prop, h.mon.prop+".reconcile-panic", "ReconcileNode", fmt.Sprint(e))
				h.mon.mu.Unlock()
			}
		}()
		res, err = h.ctl.Reconcile(context.Background(), reconcile.Request{NamespacedName: k8stypes.NamespacedName{Name: "node-1"}})
	}()
	h.afterReconcile()
	if err == nil {
		h.judgeAdoption()
	}
	return res, err
}

// judgeAdoption (C02): after a reconcile that returned without error, a pod that reports an address which the
// record holds (Valid, on an InUse interface, not bound to another pod) must be bound to exactly that address.
func (h *ipamHist) judgeAdoption() {
	m := h.mon
	m.mu.Lock()
	defer m.mu.Unlock()
	if m.lastCR == nil {
		return
	}
	for _, p := range m.pods {
		if !p.Exists || p.Exited || p.Skip != "" {
			continue
		}
		for fam, rep := range map[string]string{"v4": p.RepV4, "v6": p.RepV6} {
			if rep == "" || (fam == "v4" && !h.cfg.V4) || (fam == "v6" && !h.cfg.V6) {
				continue
			}
			for id, e := range m.lastCR.Status.NetworkInterfaces {
				set := e.IPv4
				if fam == "v6" {
					set = e.IPv6
				}
				v := set[rep]
				if v == nil || e.Status != "InUse" || v.Status != v1beta1.IPStatusValid {
					continue
				}
				m.r.Count("reported_addresses_checked_for_adoption", 1)
				if v.PodID == "" {
					m.violate("C02", "C02.reported-address-not-adopted", fam, fmt.Sprintf("pod %s reports %s, the record holds it idle on %s after a successful reconcile instead of binding it to the pod", p.Name, rep, id))
				}
			}
		}
	}
}

// afterReconcile: read the stored record back and compare with what the agent would hand to each pod.
func (h *ipamHist) afterReconcile() {
	cr := &v1beta1.Node{}
	if err := h.cl.Get(context.Background(), client.ObjectKey{Name: "node-1"}, cr); err != nil {
		return
	}
	h.mon.mu.Lock()
	h.mon.lastCR = cr.DeepCopy()
	h.mon.mu.Unlock()
}

// cniAdd: the kubelet starts the pod's sandbox; the agent answers from the record.
func (h *ipamHist) cniAdd(p *ipamPod) {
	if !p.Exists || p.Skip != "" {
		return
	}
	h.mon.mu.Lock()
	cur := h.mon.pods["ns/"+p.Name]
	h.mon.mu.Unlock()
	if cur != p {
		return // an earlier incarnation of the name: kubelet starts no sandbox for it any more
	}
	if p.Container == "" {
		p.Container = "c-" + p.UID
	}
	ctx, cancel := context.WithTimeout(context.Background(), 2*time.Second)
	defer cancel()
	reply, err := h.svc.AllocIP(ctx, &rpc.AllocIPRequest{K8SPodName: p.Name, K8SPodNamespace: "ns", K8SPodInfraContainerId: p.Container, Netns: "/proc/1/ns/net", IfName: "eth0"})
	h.mon.mu.Lock()
	defer h.mon.mu.Unlock()
	h.mon.now()
	if err != nil {
		h.mon.ev("cni ADD %s failed: %.60v", p.Name, err)
		p.AddFailed = true // the agent rolls a failed ADD back: that is a teardown it processed
		return
	}
	p.AddFailed = false
	g4, g6, _ := addrsOf(reply.NetConfs)
	h.mon.ev("cni ADD %s -> %s/%s", p.Name, addrStr(g4), addrStr(g6))
	// agent read-back must be what the record binds to this pod
	var w4, w6 string
	if h.mon.lastCR != nil {
		for _, e := range h.mon.lastCR.Status.NetworkInterfaces {
			for ip, v := range e.IPv4 {
				if v.PodID == "ns/"+p.Name && (v.PodUID == "" || v.PodUID == p.UID) {
					w4 = ip
				}
			}
			for ip, v := range e.IPv6 {
				if v.PodID == "ns/"+p.Name && (v.PodUID == "" || v.PodUID == p.UID) {
					w6 = ip
				}
			}
		}
	}
	if (w4 != "" && addrStr(g4) != w4) || (w6 != "" && addrStr(g6) != w6) {
		h.mon.violate("C02", "C02.agent-readback-differs", "multiIP", fmt.Sprintf("agent handed %s/%s to %s, the record binds %s/%s", addrStr(g4), addrStr(g6), p.Name, w4, w6))
	}
	if p.RepV4 != "" && addrStr(g4) != "" && p.RepV4 != addrStr(g4) {
		h.mon.violate("C02", "C02.readopted-onto-other-address", "agent/v4", fmt.Sprintf("pod %s reports %s but the agent handed %s", p.Name, p.RepV4, addrStr(g4)))
	}
	p.Sandbox, p.DelDone, p.Flushed = true, false, false
	p.RepV4, p.RepV6 = addrStr(g4), addrStr(g6)
}

// cniDel: the agent processes the sandbox teardown.
func (h *ipamHist) cniDel(p *ipamPod, container string) {
	ctx, cancel := context.WithTimeout(context.Background(), 2*time.Second)
	defer cancel()
	_, err := h.svc.ReleaseIP(ctx, &rpc.ReleaseIPRequest{K8SPodName: p.Name, K8SPodNamespace: "ns", K8SPodInfraContainerId: container})
	h.mon.mu.Lock()
	defer h.mon.mu.Unlock()
	h.mon.now()
	h.mon.ev("cni DEL %s(%s) err=%v pending-reports=%v", p.Name, container, err != nil, h.agent.VerifPendingDeleted())
	if err == nil && container == p.Container {
		p.Sandbox = false
		p.DelDone = true
	}
}

func (h *ipamHist) flush() {
	pend := h.agent.VerifPendingDeleted()
	err := h.agent.VerifSyncNodeRuntime(context.Background())
	if os.Getenv("VERIF_ONLY_HISTORY") != "" {
		rt := &v1beta1.NodeRuntime{}
		e2 := h.cl.Get(context.Background(), client.ObjectKey{Name: "node-1"}, rt)
		fmt.Printf("FLUSH pending-before=%v after=%v err=%v runtime(%v)=%+v\n", pend, h.agent.VerifPendingDeleted(), err, e2, rt.Status.Pods)
	}
	h.mon.mu.Lock()
	defer h.mon.mu.Unlock()
	h.mon.ev("agent flush err=%v", err != nil)
	if err == nil {
		for _, p := range h.mon.byUID {
			if p.DelDone {
				p.Flushed = true
			}
		}
	}
}

func (h *ipamHist) deletePodObj(p *ipamPod) {
	cur := &corev1.Pod{}
	if err := h.cl.Get(context.Background(), client.ObjectKey{Namespace: "ns", Name: p.Name}, cur); err == nil && string(cur.UID) == p.UID {
		_ = h.cl.Delete(context.Background(), cur)
	}
	h.mon.mu.Lock()
	p.Exists = false
	h.mon.ev("pod object %s deleted", p.Name)
	h.mon.mu.Unlock()
}

// bound returns the addresses the stored record binds to the pod.
func (h *ipamHist) bound(p *ipamPod) (v4, v6 string) {
	h.mon.mu.Lock()
	defer h.mon.mu.Unlock()
	if h.mon.lastCR == nil {
		return
	}
	for _, e := range h.mon.lastCR.Status.NetworkInterfaces {
		for ip, v := range e.IPv4 {
			if v.PodID == "ns/"+p.Name {
				v4 = ip
			}
		}
		for ip, v := range e.IPv6 {
			if v.PodID == "ns/"+p.Name {
				v6 = ip
			}
		}
	}
	return
}

func (h *ipamHist) finish(r *monitor.Result, nontrivial bool) {
	h.mon.mu.Lock()
	defer h.mon.mu.Unlock()
	r.Count("reconciles", int64(h.mon.reconc))
	r.Count("node_cr_writes_inspected", int64(h.mon.crWrites))
	r.Count("new_bindings_judged", int64(h.mon.newBind))
	r.Count("reclaims_judged", int64(h.mon.releases))
	r.Count("cloud_mutating_calls", int64(h.cloud.MutatingCalls()))
	r.DistinctKey(fmt.Sprintf("%s/v4%v/v6%v/tr%v/rd%v/a%d/%s/nr%v", h.mon.prop, h.cfg.V4, h.cfg.V6, h.cfg.Trunk, h.cfg.ERDMA, h.cfg.Adapters, h.cfg.Initial, h.cfg.NoRuntimeObj))
}

func ctxBG() context.Context { return context.Background() }

func stringsIndex(s, sub string) int { return strings.Index(s, sub) }

func sortPods(p []*ipamPod) { sort.Slice(p, func(i, j int) bool { return p[i].UID < p[j].UID }) }

func (m *ipamMon) note(f string, a ...any) {
	m.mu.Lock()
	m.now()
	m.ev(f, a...)
	m.mu.Unlock()
}

// spreadReports: histories run in milliseconds, report timestamps have one-second resolution, and
// utils.RuntimeFinalStatus picks among equal timestamps in map order. Two reports about one pod that are written
// in the same second would make "the latest report" a coin toss per reconcile; in the product they are seconds
// apart. A status whose timestamp is new in this write is moved one second past the pod's other reports when it
// does not already follow them.
func (h *ipamHist) spreadReports(rt *v1beta1.NodeRuntime) {
	if h.aging.Load() {
		return // the harness's own shift of every timestamp keeps their order
	}
	old := &v1beta1.NodeRuntime{}
	if err := h.cl.Get(context.Background(), client.ObjectKey{Name: rt.Name}, old); err != nil {
		old = &v1beta1.NodeRuntime{}
	}
	for uid, p := range rt.Status.Pods {
		if p == nil {
			continue
		}
		var prev map[v1beta1.CNIStatus]*v1beta1.CNIStatusInfo
		if op := old.Status.Pods[uid]; op != nil {
			prev = op.Status
		}
		for k, st := range p.Status {
			if st == nil {
				continue
			}
			if o := prev[k]; o != nil && o.LastUpdateTime.Unix() == st.LastUpdateTime.Unix() {
				continue // not written now
			}
			for k2, other := range p.Status {
				if k2 == k || other == nil {
					continue
				}
				if !other.LastUpdateTime.Time.Truncate(time.Second).Before(st.LastUpdateTime.Time.Truncate(time.Second)) {
					st.LastUpdateTime = metav1.NewTime(other.LastUpdateTime.Time.Truncate(time.Second).Add(time.Second))
				}
			}
		}
	}
}

// agentGC: the agent's periodic pod garbage collection (gcPods + cleanRuntimeNode); before it, time passes:
// every NodeRuntime timestamp moves one minute into the past (order preserved), which is how the harness
// models the 30 s age the agent demands of an 'initial' record without touching a clock.
func (h *ipamHist) agentGC(podGetFaults int) {
	rt := &v1beta1.NodeRuntime{}
	if err := h.cl.Get(context.Background(), client.ObjectKey{Name: "node-1"}, rt); err == nil {
		for _, p := range rt.Status.Pods {
			for _, st := range p.Status {
				if st != nil {
					st.LastUpdateTime = metav1.NewTime(st.LastUpdateTime.Add(-time.Minute))
				}
			}
		}
		h.aging.Store(true)
		_ = h.cl.Status().Update(context.Background(), rt)
		h.aging.Store(false)
	}
	h.apiMu.Lock()
	h.apiFlt["podget"] = podGetFaults
	h.apiMu.Unlock()
	ctx, cancel := context.WithTimeout(context.Background(), 10*time.Second)
	err := h.svc.VerifGCPods(ctx)
	cancel()
	h.apiMu.Lock()
	h.apiFlt["podget"] = 0
	h.apiMu.Unlock()
	h.mon.note("agent gc (pod GET faults armed: %d) err=%v", podGetFaults, err != nil)
	h.mon.r.Count("agent_gc_rounds", 1)
}

// restartController: a fresh ReconcileNode (empty per-node cache), as after a controller restart / leader change.
func (h *ipamHist) restartController() {
	h.ctl = mnode.NewVerifReconcileNode(h.cl, apisim.Scheme(), h.cloud, h.vsw, &record.FakeRecorder{}, time.Hour, 0)
	h.mon.note("controller restarted")
	h.mon.mu.Lock()
	h.mon.owedKnow = nil // what the old process owed itself died with it; the new one has the stored record only
	h.mon.mu.Unlock()
}

// drift: the cloud changes behind terway's back.
func (h *ipamHist) drift() {
	h.cloud.Mutate(func(c *cloudsim.CtrlCloud) {
		var ids []string
		for id, e := range c.ENIs {
			if !e.Deleted && e.InstanceID == "i-1" && e.Status == "InUse" {
				ids = append(ids, id)
			}
		}
		if len(ids) == 0 {
			return
		}
		sort.Strings(ids)
		e := c.ENIs[ids[h.rng.Intn(len(ids))]]
		h.mon.mu.Lock()
		boundNow := map[string]bool{}
		if h.mon.lastCR != nil {
			for _, ni := range h.mon.lastCR.Status.NetworkInterfaces {
				for _, set := range []map[string]*v1beta1.IP{ni.IPv4, ni.IPv6} {
					for ip, v := range set {
						if v != nil && v.PodID != "" {
							boundNow[ip] = true
						}
					}
				}
			}
		}
		h.mon.mu.Unlock()
		pick := func(l []string, from int) int {
			var idx []int
			for i := from; i < len(l); i++ {
				if !boundNow[l[i]] || h.rng.Intn(8) == 0 {
					idx = append(idx, i)
				}
			}
			if len(idx) == 0 {
				return -1
			}
			return idx[h.rng.Intn(len(idx))]
		}
		switch h.rng.Intn(3) {
		case 0:
			if i := pick(e.V4, 1); i > 0 {
				h.mon.mu.Lock()
				h.mon.ev("drift: address %s removed from %s (bound=%v)", e.V4[i], e.ID, boundNow[e.V4[i]])
				h.mon.drifted[e.V4[i]] = true
				h.mon.mu.Unlock()
				e.V4 = append(e.V4[:i:i], e.V4[i+1:]...)
			}
		case 1:
			if i := pick(e.V6, 0); i >= 0 {
				h.mon.mu.Lock()
				h.mon.ev("drift: address %s removed from %s (bound=%v)", e.V6[i], e.ID, boundNow[e.V6[i]])
				h.mon.drifted[e.V6[i]] = true
				h.mon.mu.Unlock()
				e.V6 = append(e.V6[:i:i], e.V6[i+1:]...)
			}
		default:
			c.InjectENI(&cloudsim.CENI{Type: "Secondary", TrafficMode: "Standard", Status: "InUse", InstanceID: "i-1", VSW: "vsw-2", Tags: map[string]string{"foreign": "yes"}})
			h.mon.mu.Lock()
			h.mon.ev("drift: foreign interface attached")
			h.mon.mu.Unlock()
		}
	})
	h.ctl.VerifForceSync("node-1")
}

type v1beta1IP = v1beta1.IP

func toIPMap(m map[string]*v1beta1.IP) map[string]*v1beta1IP { return m }
