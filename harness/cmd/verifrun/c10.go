package main

// C10 — PodENI follows its state machine and an ENI is never pulled from a live pod.
// Harness and monitors: podeni.go.

import (
	"fmt"
	"math/rand"
	"time"
)

func init() {
	register("C10", &checkDef{level: "exploration", fn: runC10, race: peRace,
		batches:  func(th bool) int { return map[bool]int{false: 4, true: 16}[th] },
		parallel: func(bool) int { return 4 },
		timeout: func(th bool) time.Duration {
			return map[bool]time.Duration{false: 20 * time.Minute, true: 90 * time.Minute}[th]
		},
	})
}

func runC10(c *ctxT) {
	r := c.R
	n := 150
	if c.Thorough {
		n = 700
	}
	r.Rule = "Closed-loop per-pod ENI histories: the real pod controller and the real PodENI controller on the simulated API server and cloud; a kubelet/scheduler simulator drives pod lifecycles (create, graceful delete = terminating -> sandbox exited -> object removed, force delete, run to completion, recreate under the same name with a new UID, possibly on the other node; fixed / elastic allocations, 1-3 interfaces, StatefulSet / ReplicaSet / bare pods; trunk, non-trunk and exclusive-ENI nodes); a delivery simulator hands reconcile requests to either controller in any order with duplicates; cloud faults (before/after effect, quota) and PodENI write failures are injected. Judged: (a) every PodENI write is an edge of {initial>bound, bound>detaching, detaching>unbound, unbound>binding, binding>bound, any>deleting, deleting>removed}; (b) every cloud Detach/Delete at call time against the liveness of the pod instance (same UID) the owning record is bound to; (c) after faults stop and 30 deliveries per name, a non-fixed pod that is gone has no record; (d) no interface created by the pod controller (id returned, no faulted delete) exists without a record. distinct = (trunk, exclusive) x set of phase edges observed"
	r.Assumptions = []string{"deliveries read the current API state (no informer staleness); order, duplication and omission of deliveries are explored", "a force-deleted pod's sandbox dies with the object", "an interface whose create reply was lost, or whose rollback delete was itself failed by injection, is not counted as a leak"}
	// directed: recreation of a fixed-IP pod under the same name, with a deposed leader that still holds the
	// moment right after the recreation and reconciles once at every position of the leader's sequence
	if c.Batch == 0 {
		id := 0
		for _, fixed := range []string{"never", "ttl-long"} {
			for _, trunk := range []bool{true, false} {
				for pos := 0; pos <= 6; pos++ {
					for _, eni := range []bool{false, true} {
						id++
						cfg := peCfg{Trunk: trunk, Names: 1, Deposed: true}
						hid := 800000 + id
						fmt.Printf("CASE C10 directed %d fixed=%s trunk=%v pos=%d eni=%v\n", hid, fixed, trunk, pos, eni)
						h := newPeHist(c, "C10", hid, cfg, int64(hid))
						sp := h.mon.spec["p0"]
						sp.Fixed, sp.Owner, sp.NIfs = fixed, "StatefulSet", 1
						peScriptRecreate(h, pos, eni)
						peSettle(h, 10, false)
						peJudgeEnd(h)
						r.Eval(1)
						r.Count("directed_recreate_cases", 1)
						h.finish(r)
					}
				}
			}
		}
	}
	// directed: a collector pass overlapping the replacement of the pod it is looking at. The collector has
	// listed the record of a pod that is gone; while it reads the pod (or right before its status write) the
	// old record is finalized and removed, the pod is recreated and its new record bound.
	if c.Batch == 1%max(c.NBatch, 1) {
		id := 0
		for _, trunk := range []bool{true, false} {
			for _, at := range []string{"get", "write"} {
				for _, fixed := range []string{"", "ttl-zero"} {
					id++
					hid := 810000 + id
					fmt.Printf("CASE C10 directed-gc %d trunk=%v at=%s fixed=%q\n", hid, trunk, at, fixed)
					h := newPeHist(c, "C10", hid, peCfg{Trunk: trunk, Names: 1}, int64(hid))
					sp := h.mon.spec["p0"]
					sp.Fixed, sp.Owner, sp.NIfs = fixed, "StatefulSet", 1
					peScriptGCOverlap(h, at)
					peSettle(h, 10, false)
					peJudgeEnd(h)
					r.Eval(1)
					r.Count("directed_collector_overlap_cases", 1)
					h.finish(r)
				}
			}
		}
	}
	// directed: the pod's deletion never reaches the pod controller (it was down, or not the leader, when the pod
	// went away): the record collector is the only path left, and it must release the record
	if c.Batch == 2%max(c.NBatch, 1) {
		id := 0
		for _, trunk := range []bool{true, false} {
			for _, nifs := range []int{1, 2} {
				id++
				hid := 820000 + id
				fmt.Printf("CASE C10 directed-missed-delete %d trunk=%v nifs=%d\n", hid, trunk, nifs)
				h := newPeHist(c, "C10", hid, peCfg{Trunk: trunk, Names: 1}, int64(hid))
				sp := h.mon.spec["p0"]
				sp.Fixed, sp.Owner, sp.NIfs = "", "ReplicaSet", nifs
				h.createPod("p0")
				h.deliverPod("p0")
				h.deliverENI("p0")
				h.deliverPod("p0")
				h.deliverENI("p0")
				h.mon.mu.Lock()
				p := h.mon.cur["p0"]
				h.mon.mu.Unlock()
				h.remove(p) // nobody tells the pod controller
				for i := 0; i < 4; i++ {
					h.gcRecords()
					for k := 0; k < 3; k++ {
						h.deliverENI("p0")
					}
				}
				h.mon.mu.Lock()
				if rec := h.mon.recs["p0"]; rec != nil {
					h.mon.violate("C10", "C10.record-not-removed", "collector-only/"+peState(rec), fmt.Sprintf("pod p0 (no fixed IP) is gone, its deletion was never delivered to the pod controller, and after 4 collector passes with 12 deliveries to the PodENI controller its record is still there (%s)", peState(rec)))
				}
				h.mon.mu.Unlock()
				peSettle(h, 10, false)
				peJudgeEnd(h)
				r.Eval(1)
				r.Count("directed_missed_delete_cases", 1)
				h.finish(r)
			}
		}
	}
	runPeHistories(c, "C10", n, 64, func(rng *rand.Rand) peCfg { return genPeCfg(rng) }, func(h *peHist) {
		peRandomWalk(h)
		peSettle(h, 30, false)
		peJudgeEnd(h)
	})
}

// peScriptRecreate: bound(uid1) -> pod replaced by uid2 -> the leader walks detaching, unbound, binding, bound(uid2);
// the deposed leader, whose snapshot is the moment right after the replacement, reconciles once before the
// leader's step number pos.
func peScriptRecreate(h *peHist, pos int, eni bool) {
	h.createPod("p0")
	h.deliverPod("p0")
	h.deliverENI("p0")
	h.mon.mu.Lock()
	p := h.mon.cur["p0"]
	h.mon.mu.Unlock()
	h.remove(p)
	h.createPod("p0")
	h.verMu.Lock()
	at := h.seq
	h.verMu.Unlock()
	steps := []func(){
		func() { h.deliverPod("p0") }, func() { h.deliverENI("p0") }, func() { h.deliverPod("p0") },
		func() { h.deliverPod("p0") }, func() { h.deliverENI("p0") }, func() { h.deliverPod("p0") },
	}
	for i := 0; i <= len(steps); i++ {
		if i == pos {
			h.dcache.mu.Lock()
			h.dcache.asOf = at
			h.dcache.mu.Unlock()
			h.deliverDeposedAt("p0", eni)
		}
		if i < len(steps) {
			steps[i]()
		}
	}
	h.deliverENI("p0")
	h.deliverPod("p0")
	h.deliverENI("p0")
}

// peScriptGCOverlap: see runC10.
func peScriptGCOverlap(h *peHist, at string) {
	h.walking = true
	defer func() { h.walking = false }()
	h.createPod("p0")
	h.deliverPod("p0")
	h.deliverENI("p0")
	h.mon.mu.Lock()
	p := h.mon.cur["p0"]
	h.mon.mu.Unlock()
	h.remove(p)
	h.scriptedAt = at
	h.scripted = func() {
		for i := 0; i < 2; i++ {
			h.deliverPod("p0") // the pod's deletion reaches the pod controller
			h.deliverENI("p0")
			h.deliverENI("p0")
			h.deliverENI("p0")
		}
		h.createPod("p0")
		h.deliverPod("p0")
		h.deliverENI("p0")
		h.deliverPod("p0")
		h.deliverENI("p0")
	}
	h.gcRecords()
	h.scripted = nil
	for i := 0; i < 4; i++ {
		h.deliverENI("p0")
		h.deliverPod("p0")
	}
}
