package main

// Closed-loop harness for the per-pod ENI family (C10, C11): the real pod controller
// (pkg/controller/pod) and the real PodENI controller (pkg/controller/pod-eni) run on the simulated
// API server and the simulated cloud; a kubelet/scheduler simulator owns the pod lifecycles and a
// delivery simulator decides which reconcile request is delivered next (any order, duplicates, stale).
//
// Monitors:
//   - every write of a PodENI object (API-server observer): abstract state before -> after must be an edge
//     of the documented state machine;
//   - every cloud Detach/Delete (cloud listener, at call time): the interface must not belong to a record
//     bound to a pod instance (same UID) that is still running; calls issued by the leaked-interface
//     collector must name an interface that carries both cluster tags, is older than the grace period and
//     is referenced by no record;
//   - every write that moves a record with a fixed allocation to deleting is judged against the release
//     strategies of its allocations;
//   - every time a record reaches bound, a fixed-IP pod must hold the interfaces/addresses it held before;
//   - bounded progress and leak judgement at the end of a history.

import (
	"context"
	"encoding/json"
	"fmt"
	"math/rand"
	"os"
	"sort"
	"strings"
	"sync"
	"sync/atomic"
	"time"

	"github.com/go-logr/logr/funcr"
	corev1 "k8s.io/api/core/v1"
	apierrors "k8s.io/apimachinery/pkg/api/errors"
	metav1 "k8s.io/apimachinery/pkg/apis/meta/v1"
	"k8s.io/apimachinery/pkg/runtime/schema"
	k8stypes "k8s.io/apimachinery/pkg/types"
	"k8s.io/client-go/tools/record"
	"sigs.k8s.io/controller-runtime/pkg/client"
	logf "sigs.k8s.io/controller-runtime/pkg/log"
	"sigs.k8s.io/controller-runtime/pkg/reconcile"

	"verifharness/apisim"
	"verifharness/cloudsim"
	"verifharness/monitor"

	v1beta1 "github.com/AliyunContainerService/terway/pkg/apis/network.alibabacloud.com/v1beta1"
	podctl "github.com/AliyunContainerService/terway/pkg/controller/pod"
	podeni "github.com/AliyunContainerService/terway/pkg/controller/pod-eni"
	"github.com/AliyunContainerService/terway/pkg/controller/status"
	"github.com/AliyunContainerService/terway/pkg/vswitch"
	"github.com/AliyunContainerService/terway/types"
	"github.com/AliyunContainerService/terway/types/controlplane"
)

const peCluster = "c-verif"

type peCfg struct {
	Trunk      bool // cluster-wide trunk mode
	Exclusive  bool // node-2 is an exclusive-ENI node
	Names      int  // distinct pod names
	Steps      int
	Faults     map[int]cloudsim.Fault
	APIFaults  bool
	Lag        int  // percent of controller reads served from a lagging cache
	Deposed    bool // a deposed leader keeps reconciling for a while from a stale, slowly advancing snapshot
	FixedBias  bool // most names use fixed allocations (C11)
	Interleave int  // percent of controller API calls before which other actors get to run (concurrency of the two controllers, the collectors and kubelet)
}

type pePod struct {
	Name        string
	UID         string
	Node        string
	Fixed       string // "" | never | ttl-long | ttl-zero   (constant per name)
	NIfs        int
	Owner       string // "" | StatefulSet | ReplicaSet
	Exists      bool
	Terminating bool
	Exited      bool
}

func (p *pePod) live() bool { return p != nil && p.Exists && !p.Exited }

type peMon struct {
	mu         sync.Mutex
	r          *monitor.Result
	prop       string
	hid        int
	cfg        peCfg
	clock      int64
	events     []string
	byUID      map[string]*pePod
	cur        map[string]*pePod            // name -> current incarnation
	spec       map[string]*pePod            // name -> constant attributes
	recs       map[string]*v1beta1.PodENI   // shadow of the stored records
	firstENI   map[string]map[string]string // name -> eni id -> ipv4 at the first bind of a fixed pod
	createdOK  map[string]bool
	delFaulted map[string]bool // interfaces whose delete call failed by injection
	inGC       bool
	inDeposed  bool // a deposed leader's reconcile is running
	lastSeen   map[string]time.Time // name -> when the harness last knew the pod to exist (moves back with elapse)
	edges      map[string]int
	guarded    int
}

func (m *peMon) ev(f string, a ...any) {
	if os.Getenv("VERIF_ONLY_HISTORY") != "" {
		fmt.Printf("EV %d %s\n", m.clock, fmt.Sprintf(f, a...))
	}
	if len(m.events) < 4000 {
		m.events = append(m.events, fmt.Sprintf("%d ", m.clock)+fmt.Sprintf(f, a...))
	}
}
func (m *peMon) note(f string, a ...any) { m.mu.Lock(); m.clock++; m.ev(f, a...); m.mu.Unlock() }
func (m *peMon) replay() map[string]any {
	ev := m.events
	if len(ev) > 300 {
		ev = ev[len(ev)-300:]
	}
	return map[string]any{"history": m.hid, "config": m.cfg, "last_events": append([]string(nil), ev...)}
}
func (m *peMon) violate(prop, class, site, detail string) {
	if prop != m.prop {
		m.r.Count("sibling:"+class, 1)
		return
	}
	m.r.Violate(class, site, fmt.Sprintf("history %d: %s", m.hid, detail), m.replay())
}

func peState(p *v1beta1.PodENI) string {
	if p == nil {
		return "removed"
	}
	if !p.DeletionTimestamp.IsZero() || p.Status.Phase == v1beta1.ENIPhaseDeleting {
		return "deleting"
	}
	switch p.Status.Phase {
	case v1beta1.ENIPhaseInitial:
		return "initial"
	case v1beta1.ENIPhaseBind:
		return "bound"
	case v1beta1.ENIPhaseDetaching:
		return "detaching"
	case v1beta1.ENIPhaseUnbind:
		return "unbound"
	case v1beta1.ENIPhaseBinding:
		return "binding"
	}
	return "phase:" + string(p.Status.Phase)
}

var peAllowed = map[string]bool{
	"initial>bound": true, "bound>detaching": true, "detaching>unbound": true, "unbound>binding": true, "binding>bound": true,
	"deleting>removed": true,
}

// observe: every successful write of a PodENI.
func (m *peMon) observe(verb string, before, after *v1beta1.PodENI) {
	m.mu.Lock()
	defer m.mu.Unlock()
	m.clock++
	name := ""
	if before != nil {
		name = before.Name
	} else if after != nil {
		name = after.Name
	}
	from, to := "absent", peState(after)
	if before != nil {
		from = peState(before)
	}
	if after == nil {
		delete(m.recs, name)
	} else {
		m.recs[name] = after.DeepCopy()
	}
	if before == nil {
		m.ev("record %s created (%s) uid=%s enis=%v", name, to, after.Annotations[types.PodUID], peENIs(after))
		if to != "initial" {
			m.violate("C10", "C10.phase-edge", "created-as-"+to, fmt.Sprintf("record %s was created in state %s", name, to))
		}
		return
	}
	if from != to {
		edge := from + ">" + to
		m.edges[edge]++
		m.ev("record %s %s (%s) uid=%s", name, edge, verb, peUID(after, before))
		if !peAllowed[edge] && to != "deleting" {
			m.violate("C10", "C10.phase-edge", edge, fmt.Sprintf("record %s moved %s by %s, which is not an edge of the documented state machine", name, edge, verb))
		}
	}
	// a record reaching bound: which pod, which interfaces
	if to == "bound" && from != "bound" && after != nil {
		uid := after.Annotations[types.PodUID]
		p := m.byUID[uid]
		if p == nil || !p.Exists {
			m.r.Count("bound_for_absent_pod", 1)
		}
		sp := m.spec[name]
		if sp != nil && (sp.Fixed == "never" || sp.Fixed == "ttl-long") {
			now := map[string]string{}
			for _, a := range after.Spec.Allocations {
				now[a.ENI.ID] = a.IPv4
			}
			if prev, ok := m.firstENI[name]; ok {
				if fmt.Sprint(prev) != fmt.Sprint(now) {
					m.violate("C11", "C11.fixed-ip-changed", sp.Fixed, fmt.Sprintf("fixed-IP pod %s was bound to %v before and is bound to %v after recreation", name, prev, now))
				} else {
					m.r.Count("fixed_rebinds_same_interface", 1)
				}
			} else {
				m.firstENI[name] = now
			}
		}
	}
	// a record with a fixed allocation moved to deleting
	if to == "deleting" && from != "deleting" && before != nil && before.Spec.HaveFixedIP() {
		m.judgeFixedRelease(name, before, verb)
	}
}

func peUID(a, b *v1beta1.PodENI) string {
	if a != nil {
		return a.Annotations[types.PodUID]
	}
	if b != nil {
		return b.Annotations[types.PodUID]
	}
	return ""
}

func peENIs(p *v1beta1.PodENI) []string {
	var out []string
	for _, a := range p.Spec.Allocations {
		out = append(out, a.ENI.ID+"/"+a.IPv4)
	}
	return out
}

// peKeep: independent evaluation of "must this record be kept" (property C11), with a 60 s margin
// around every TTL; returns keep, undecided (inside the margin).
func peKeep(rec *v1beta1.PodENI, now time.Time) (keep, undecided bool, why string) {
	return peKeepSince(rec, now, rec.Status.PodLastSeen.Time)
}

// peKeepSince: lastSeen is when the pod was last observed (the record's own stamp, or the harness's knowledge of
// when the pod last existed if that is later: the stamp is the controller's to keep fresh).
func peKeepSince(rec *v1beta1.PodENI, now time.Time, lastSeen time.Time) (keep, undecided bool, why string) {
	for _, a := range rec.Spec.Allocations {
		if a.AllocationType.Type != v1beta1.IPAllocTypeFixed {
			continue
		}
		switch a.AllocationType.ReleaseStrategy {
		case v1beta1.ReleaseStrategyNever:
			return true, false, "an allocation has release strategy Never"
		case v1beta1.ReleaseStrategyTTL:
			d, err := time.ParseDuration(a.AllocationType.ReleaseAfter)
			if err != nil || d < 0 {
				return true, false, "an allocation has an unusable TTL " + a.AllocationType.ReleaseAfter
			}
			age := now.Sub(lastSeen)
			switch {
			case age < d-time.Minute:
				return true, false, fmt.Sprintf("TTL %s has not elapsed since the pod was last seen (%s ago)", d, age.Round(time.Second))
			case age < d+time.Minute:
				undecided = true
			}
		default:
			return true, false, "an allocation has an unknown release strategy"
		}
	}
	return false, undecided, ""
}

func (m *peMon) judgeFixedRelease(name string, rec *v1beta1.PodENI, verb string) {
	m.r.Count("fixed_releases_judged", 1)
	if p := m.cur[name]; p.live() && p.UID == rec.Annotations[types.PodUID] && peState(rec) != "initial" {
		m.violate("C11", "C11.fixed-record-released", "pod-running", fmt.Sprintf("record %s with a fixed allocation was moved to deleting (%s) while its pod %s is running", name, verb, p.UID))
		return
	}
	seen := rec.Status.PodLastSeen.Time
	if t, ok := m.lastSeen[name]; ok && t.After(seen) && !seen.IsZero() {
		seen = t
	}
	keep, undecided, why := peKeepSince(rec, time.Now(), seen)
	if undecided {
		m.r.Count("fixed_releases_inside_ttl_margin_not_judged", 1)
		return
	}
	if keep {
		code := "ttl-not-elapsed"
		switch {
		case strings.Contains(why, "Never"):
			code = "strategy-never"
		case strings.Contains(why, "unusable"):
			code = "unusable-ttl"
		case strings.Contains(why, "unknown"):
			code = "unknown-strategy"
		}
		m.violate("C11", "C11.fixed-record-released", code, fmt.Sprintf("record %s with a fixed allocation was moved to deleting (%s) although %s", name, verb, why))
		return
	}
	if p := m.cur[name]; p.live() && p.UID == rec.Annotations[types.PodUID] {
		m.violate("C11", "C11.fixed-record-released", "pod-running", fmt.Sprintf("record %s with a fixed allocation was moved to deleting (%s) while its pod %s is running", name, verb, p.UID))
	}
}

// ---- cloud listener ----

func (m *peMon) OnInvoke(c *cloudsim.CtrlCloud, call *cloudsim.CCall) {
	if !call.Mutating {
		return
	}
	m.mu.Lock()
	defer m.mu.Unlock()
	m.clock++
	m.ev("cloud> %s eni=%s inst=%s fault=%s gc=%v", call.API, call.ENI, call.Instance, call.Fault, m.inGC)
	if call.API != "DetachNetworkInterface" && call.API != "DeleteNetworkInterface" {
		return
	}
	m.guarded++
	var owner *v1beta1.PodENI
	for _, rec := range m.recs {
		for _, a := range rec.Spec.Allocations {
			if a.ENI.ID == call.ENI {
				owner = rec
			}
		}
	}
	if owner != nil {
		uid := owner.Annotations[types.PodUID]
		if m.inDeposed {
			// a process that lost the lease and acts on a view of unbounded age can call the cloud whatever the
			// API server holds: nothing on the record can stop it (the lease's renew deadline bounds it in the
			// product). Its API-server writes and what the live leader makes of them stay judged.
			m.r.Count("deposed_leader_cloud_calls_not_judged", 1)
		} else if p := m.byUID[uid]; p.live() && (peState(owner) == "bound" || peState(owner) == "binding" || peState(owner) == "initial" || peState(owner) == "detaching" || peState(owner) == "deleting") {
			// the pod instance the record is bound to is still running
			if peState(owner) != "initial" && peState(owner) != "binding" || call.API == "DeleteNetworkInterface" {
				m.violate("C10", "C10.eni-pulled-from-live-pod", call.API+"/"+peState(owner), fmt.Sprintf("%s of %s while record %s (%s) is bound to pod uid %s, which is still running on %s", call.API, call.ENI, owner.Name, peState(owner), uid, p.Node))
			}
		}
	}
	if m.inGC {
		snap := c.SnapshotLocked()
		e := snap.ENIs[call.ENI]
		why := ""
		switch {
		case e.Tags[types.TagKeyClusterID] != peCluster:
			why = "it does not carry this cluster's id tag"
		case e.Tags[types.NetworkInterfaceTagCreatorKey] != types.TagTerwayController:
			why = "it does not carry the controller's creator tag"
		case owner != nil:
			why = "record " + owner.Name + " references it"
		default:
			t, err := time.Parse("2006-01-02T15:04:05Z", e.CreationTime)
			if err != nil {
				why = "its creation time cannot be read"
			} else if time.Since(t) < 9*time.Minute {
				why = fmt.Sprintf("it is only %s old", time.Since(t).Round(time.Second))
			}
		}
		m.r.Count("leak_gc_calls_judged", 1)
		if why != "" {
			m.violate("C11", "C11.gc-reaped-foreign-or-live", strings.Join(strings.Fields(why)[:min(4, len(strings.Fields(why)))], "-"), fmt.Sprintf("leaked-interface collector issued %s for %s although %s", call.API, call.ENI, why))
		}
	}
}

func (m *peMon) OnReturn(c *cloudsim.CtrlCloud, call *cloudsim.CCall) {
	if !call.Mutating {
		return
	}
	m.mu.Lock()
	defer m.mu.Unlock()
	m.ev("cloud< %s eni=%s err=%q", call.API, call.ENI, shorten(call.Err, 70))
	switch call.API {
	case "CreateNetworkInterface":
		if call.ENI != "" && call.Err == "" {
			m.createdOK[call.ENI] = true
		}
	case "DeleteNetworkInterface":
		if call.Err != "" && call.Fault != cloudsim.FaultNone {
			m.delFaulted[call.ENI] = true
		}
	}
}

// ---- lagging informer cache ----

// peCache models the informer cache a controller reads from: per object a monotonic position in the
// sequence of versions the API server has stored; a Get may be served from an older version (never older
// than what this reader has already seen) while every write goes to the server.
type peCache struct {
	client.WithWatch
	h        *peHist
	who      string
	mu       sync.Mutex
	pos      map[string]int
	rng      *rand.Rand
	lagP     int // percent of reads served without catching up completely
	snapshot bool
	asOf     int
}

func (c *peCache) Get(ctx context.Context, key client.ObjectKey, obj client.Object, opts ...client.GetOption) error {
	kind := ""
	switch obj.(type) {
	case *v1beta1.PodENI:
		kind = "podeni/"
	case *corev1.Pod:
		kind = "pod/"
	default:
		return c.WithWatch.Get(ctx, key, obj, opts...)
	}
	k := kind + key.Name
	c.h.verMu.Lock()
	vers := c.h.vers[k]
	c.h.verMu.Unlock()
	if len(vers) == 0 {
		return c.WithWatch.Get(ctx, key, obj, opts...)
	}
	c.mu.Lock()
	pos := c.pos[k]
	last := len(vers) - 1
	if c.snapshot {
		// the whole cache is the API state as of one past moment (c.asOf), the same for every object
		pos = -1
		for i, v := range vers {
			if v.seq <= c.asOf {
				pos = i
			}
		}
		c.mu.Unlock()
		if pos == -1 {
			return apierrors.NewNotFound(schema.GroupResource{Resource: kind}, key.Name)
		}
	} else {
		if pos > last {
			pos = last
		}
		if c.rng.Intn(100) < c.lagP {
			pos += c.rng.Intn(last - pos + 1) // catches up partially (possibly not at all)
		} else {
			pos = last
		}
		c.pos[k] = pos
		c.mu.Unlock()
	}
	if pos == last {
		err := c.WithWatch.Get(ctx, key, obj, opts...)
		if !c.snapshot {
			// other actors may have run inside that call (interleaving): what was read is the newest version
			c.h.verMu.Lock()
			n := len(c.h.vers[k]) - 1
			c.h.verMu.Unlock()
			c.mu.Lock()
			if n > c.pos[k] {
				c.pos[k] = n
			}
			c.mu.Unlock()
		}
		return err
	}
	c.h.mon.r.Count("stale_reads_served", 1)
	v := vers[pos].obj
	if v == nil {
		return apierrors.NewNotFound(schema.GroupResource{Resource: kind}, key.Name)
	}
	switch o := obj.(type) {
	case *v1beta1.PodENI:
		v.(*v1beta1.PodENI).DeepCopyInto(o)
	case *corev1.Pod:
		v.(*corev1.Pod).DeepCopyInto(o)
	}
	c.h.mon.note("%s reads %s%s from its cache: version %d of %d", c.who, kind, key.Name, pos+1, last+1)
	return nil
}

type peVer struct {
	seq int
	obj client.Object
}

// ---- history ----

type peHist struct {
	verMu  sync.Mutex
	vers   map[string][]peVer // kind/name -> stored versions in order (obj nil = absent)
	seq    int
	dpctl  *podctl.ReconcilePod    // a deposed leader that has not noticed yet: its cache is a consistent
	dectl  *podeni.ReconcilePodENI // snapshot of a past moment, advancing slowly
	dcache *peCache

	c          *ctxT
	cfg        peCfg
	mon        *peMon
	hooks      *apisim.Hooks
	cl         client.WithWatch
	cloud      *cloudsim.CtrlCloud
	pctl       *podctl.ReconcilePod
	ectl       *podeni.ReconcilePodENI
	rng        *rand.Rand
	uidGen     int
	apiMu      sync.Mutex
	apiFlt     int
	listFlt    int // remaining injected failures of a PodENI list
	burstMu    sync.Mutex
	scripted   func()       // one-shot: runs instead of a random burst at the next matching controller API call
	scriptedAt string       // "get" (a pod read) | "write" (a record write)
	inCtl      atomic.Int32 // >0 while a controller (or collector) call is running
	walking    bool
	irng       *rand.Rand
}

var peOnce sync.Once

func peSetGlobals(c *ctxT) {
	peOnce.Do(func() {
		t := true
		stack := "ipv4"
		if c.Batch%2 == 1 {
			stack = "dual"
		}
		controlplane.SetConfig(&controlplane.Config{ClusterID: peCluster, VPCID: "vpc-1", IPStack: stack, EnableTrunk: &t})
		shortBackoffs()
		if os.Getenv("VERIF_ONLY_HISTORY") != "" {
			logf.SetLogger(funcr.New(func(prefix, args string) { fmt.Println("LOG", prefix, args) }, funcr.Options{Verbosity: 5}))
		}
	})
}

func genPeCfg(rng *rand.Rand) peCfg {
	cfg := peCfg{Trunk: rng.Intn(3) != 0, Exclusive: rng.Intn(3) == 0, Names: 2 + rng.Intn(4), Steps: 40 + rng.Intn(80)}
	cfg.APIFaults = rng.Intn(2) == 0
	if rng.Intn(2) == 0 {
		cfg.Lag = 10 + rng.Intn(50)
	}
	cfg.Deposed = rng.Intn(3) == 0
	if rng.Intn(2) == 0 {
		cfg.Interleave = 5 + rng.Intn(25)
	}
	if rng.Intn(3) != 0 {
		cfg.Faults = genFaults(rng, 1+rng.Intn(4), 40)
		for k, f := range cfg.Faults {
			f.DelayA, f.DelayB = 0, 0
			cfg.Faults[k] = f
		}
	}
	return cfg
}

func peNode(name, inst, trunk string, exclusive bool) *corev1.Node {
	n := &corev1.Node{ObjectMeta: metav1.ObjectMeta{Name: name, Labels: map[string]string{
		corev1.LabelTopologyRegion: "cn-sim", corev1.LabelTopologyZone: "zone-a", corev1.LabelInstanceTypeStable: "ecs.sim"}, Annotations: map[string]string{}},
		Spec: corev1.NodeSpec{ProviderID: "cn-sim." + inst}}
	if trunk != "" {
		n.Annotations[types.TrunkOn] = trunk
	}
	if exclusive {
		n.Labels[types.ExclusiveENIModeLabel] = string(types.ExclusiveENIOnly)
	}
	return n
}

func newPeHist(c *ctxT, prop string, hid int, cfg peCfg, seed int64) *peHist {
	peSetGlobals(c)
	h := &peHist{c: c, cfg: cfg, rng: rand.New(rand.NewSource(seed)), vers: map[string][]peVer{}}
	h.mon = &peMon{r: c.R, prop: prop, hid: hid, cfg: cfg, byUID: map[string]*pePod{}, cur: map[string]*pePod{}, spec: map[string]*pePod{}, recs: map[string]*v1beta1.PodENI{},
		firstENI: map[string]map[string]string{}, createdOK: map[string]bool{}, delFaulted: map[string]bool{}, edges: map[string]int{}}
	h.cloud = cloudsim.NewCtrlCloud(func() int64 { return 0 }, seed)
	h.cloud.AddVSW("vsw-1", "zone-a", 1, 5000)
	h.cloud.AddVSW("vsw-2", "zone-a", 2, 5000)
	h.cloud.AddInstance("i-1", 6, 10, 10, 20)
	h.cloud.AddInstance("i-2", 6, 10, 10, 20)
	h.cloud.Plan = cfg.Faults
	trunk1, trunk2 := "", ""
	h.cloud.Mutate(func(cc *cloudsim.CtrlCloud) {
		if cfg.Trunk {
			trunk1 = cc.InjectENI(&cloudsim.CENI{Type: "Trunk", TrafficMode: "Standard", Status: "InUse", InstanceID: "i-1", VSW: "vsw-1"}).ID
			if !cfg.Exclusive {
				trunk2 = cc.InjectENI(&cloudsim.CENI{Type: "Trunk", TrafficMode: "Standard", Status: "InUse", InstanceID: "i-2", VSW: "vsw-1"}).ID
			}
		}
	})
	objs := []client.Object{peNode("node-1", "i-1", trunk1, false), peNode("node-2", "i-2", trunk2, cfg.Exclusive),
		&v1beta1.PodNetworking{ObjectMeta: metav1.ObjectMeta{Name: "pn-elastic"}, Spec: v1beta1.PodNetworkingSpec{VSwitchOptions: []string{"vsw-1", "vsw-2"}, SecurityGroupIDs: []string{"sg-1"},
			AllocationType: v1beta1.AllocationType{Type: v1beta1.IPAllocTypeElastic}}}}
	h.hooks = &apisim.Hooks{}
	h.cl = apisim.New(h.hooks, objs...)
	sw, _ := vswitch.NewSwitchPool(100, "10m")
	// both controllers run in one manager and read from the same informer cache
	pc := &peCache{WithWatch: h.cl, h: h, who: "controller cache", pos: map[string]int{}, rng: rand.New(rand.NewSource(seed + 1)), lagP: cfg.Lag}
	ec := pc
	h.pctl = podctl.NewVerifReconcilePod(pc, apisim.Scheme(), h.cloud, sw, &record.FakeRecorder{}, cfg.Trunk, false)
	h.ectl = podeni.NewVerifReconcilePodENI(ec, apisim.Scheme(), h.cloud, &record.FakeRecorder{}, cfg.Trunk, false, status.NewCache[status.NodeStatus]())
	if cfg.Deposed {
		h.dcache = &peCache{WithWatch: h.cl, h: h, who: "deposed leader's cache", pos: map[string]int{}, rng: rand.New(rand.NewSource(seed + 3)), snapshot: true}
		h.dpctl = podctl.NewVerifReconcilePod(h.dcache, apisim.Scheme(), h.cloud, sw, &record.FakeRecorder{}, cfg.Trunk, false)
		h.dectl = podeni.NewVerifReconcilePodENI(h.dcache, apisim.Scheme(), h.cloud, &record.FakeRecorder{}, cfg.Trunk, false, status.NewCache[status.NodeStatus]())
	}
	h.cloud.Lis = h.mon
	h.hooks.Set(func(hk *apisim.Hooks) {
		hk.ObserveWrite = func(verb string, before, after client.Object) {
			h.recordVersion(before, after)
			b, _ := before.(*v1beta1.PodENI)
			a, _ := after.(*v1beta1.PodENI)
			if b == nil && a == nil {
				return
			}
			h.mon.observe(verb, b, a)
		}
		hk.BeforeGet = func(ctx context.Context, key client.ObjectKey, obj client.Object) error {
			if _, ok := obj.(*corev1.Pod); ok {
				h.maybeBurst("get")
			}
			return nil
		}
		hk.BeforeList = func(ctx context.Context, list client.ObjectList) error {
			if _, ok := list.(*v1beta1.PodENIList); !ok {
				return nil
			}
			h.apiMu.Lock()
			defer h.apiMu.Unlock()
			if h.listFlt > 0 {
				h.listFlt--
				h.mon.note("api: injected failure of a record list")
				return apierrors.NewServiceUnavailable("injected: list failed")
			}
			return nil
		}
		hk.BeforeWrite = func(ctx context.Context, verb string, obj client.Object) error {
			if _, ok := obj.(*v1beta1.PodENI); !ok {
				return nil
			}
			h.maybeBurst("write")
			h.apiMu.Lock()
			defer h.apiMu.Unlock()
			if h.apiFlt > 0 {
				h.apiFlt--
				h.mon.note("api: injected failure of %s on record %s", verb, obj.GetName())
				if h.rng.Intn(2) == 0 {
					return apierrors.NewConflict(schema.GroupResource{Group: "network.alibabacloud.com", Resource: "podenis"}, obj.GetName(), fmt.Errorf("injected conflict"))
				}
				return apierrors.NewServiceUnavailable("injected: write lost")
			}
			return nil
		}
	})
	// constant attributes per name
	for i := 0; i < cfg.Names; i++ {
		sp := &pePod{Name: fmt.Sprintf("p%d", i), NIfs: 1}
		k := h.rng.Intn(6)
		if cfg.FixedBias {
			k = h.rng.Intn(4)
		}
		switch k {
		case 0:
			sp.Fixed = "never"
		case 1:
			sp.Fixed = "ttl-long"
		case 2:
			sp.Fixed = "ttl-zero"
		}
		if sp.Fixed != "" {
			sp.Owner = []string{"", "StatefulSet"}[h.rng.Intn(2)]
		} else {
			sp.Owner = []string{"", "StatefulSet", "ReplicaSet"}[h.rng.Intn(3)]
		}
		if h.rng.Intn(4) == 0 {
			sp.NIfs = 2 + h.rng.Intn(2)
		}
		h.mon.spec[sp.Name] = sp
	}
	return h
}

// maybeBurst: the controllers, the collectors and kubelet run concurrently in production; a delivery is not
// atomic. Before a controller's API call other actors get to run a few steps (re-entrantly, same goroutine).
func (h *peHist) maybeBurst(at string) {
	if h.inCtl.Load() == 0 || !h.burstMu.TryLock() {
		return
	}
	defer h.burstMu.Unlock()
	if f := h.scripted; f != nil && h.scriptedAt == at {
		h.scripted = nil
		h.mon.note("-- scripted overlap begins (at a %s)", at)
		f()
		h.mon.note("-- scripted overlap ends")
		return
	}
	if h.cfg.Interleave == 0 {
		return
	}
	if h.irng == nil || !h.walking || h.irng.Intn(100) >= h.cfg.Interleave {
		return
	}
	h.mon.note("-- interleaved steps begin")
	names := h.names()
	for i, n := 0, 1+h.irng.Intn(4); i < n; i++ {
		name := names[h.irng.Intn(len(names))]
		h.mon.mu.Lock()
		p := h.mon.cur[name]
		h.mon.mu.Unlock()
		switch k := h.irng.Intn(10); {
		case k < 3:
			h.deliverENI(name)
		case k < 6:
			h.deliverPod(name)
		case k < 7:
			h.createPod(name)
		case k < 9 && p != nil && p.Exists:
			h.remove(p)
		default:
			h.deliverENI(name)
		}
	}
	h.mon.r.Count("interleaved_bursts", 1)
	h.mon.note("-- interleaved steps end")
}

func (h *peHist) recordVersion(before, after client.Object) {
	ref := after
	if ref == nil {
		ref = before
	}
	kind := ""
	switch ref.(type) {
	case *v1beta1.PodENI:
		kind = "podeni/"
	case *corev1.Pod:
		kind = "pod/"
	default:
		return
	}
	k := kind + ref.GetName()
	h.verMu.Lock()
	defer h.verMu.Unlock()
	h.seq++
	if after == nil {
		h.vers[k] = append(h.vers[k], peVer{h.seq, nil})
		return
	}
	h.vers[k] = append(h.vers[k], peVer{h.seq, after.DeepCopyObject().(client.Object)})
}

func (h *peHist) podObject(p *pePod) *corev1.Pod {
	sp := h.mon.spec[p.Name]
	obj := &corev1.Pod{ObjectMeta: metav1.ObjectMeta{Name: p.Name, Namespace: "ns", UID: k8stypes.UID(p.UID), Finalizers: []string{"verif/kubelet"},
		Annotations: map[string]string{types.PodENI: "true"}}, Spec: corev1.PodSpec{NodeName: p.Node, Containers: []corev1.Container{{Name: "c", Image: "x"}}}}
	if sp.Owner != "" {
		obj.OwnerReferences = []metav1.OwnerReference{{APIVersion: "apps/v1", Kind: sp.Owner, Name: "owner", UID: "o"}}
	}
	type net struct {
		Interface        string                  `json:"interface"`
		VSwitchOptions   []string                `json:"vSwitchOptions"`
		SecurityGroupIDs []string                `json:"securityGroupIDs"`
		AllocationType   *v1beta1.AllocationType `json:"allocationType,omitempty"`
	}
	if sp.Fixed == "" && sp.NIfs == 1 && len(p.Name)%2 == 0 {
		obj.Annotations[types.PodNetworking] = "pn-elastic"
	} else {
		var nets []net
		for i := 0; i < sp.NIfs; i++ {
			n := net{Interface: fmt.Sprintf("eth%d", i), VSwitchOptions: []string{"vsw-1", "vsw-2"}, SecurityGroupIDs: []string{"sg-1"}}
			switch sp.Fixed {
			case "never":
				n.AllocationType = &v1beta1.AllocationType{Type: v1beta1.IPAllocTypeFixed, ReleaseStrategy: v1beta1.ReleaseStrategyNever}
			case "ttl-long":
				n.AllocationType = &v1beta1.AllocationType{Type: v1beta1.IPAllocTypeFixed, ReleaseStrategy: v1beta1.ReleaseStrategyTTL, ReleaseAfter: "48h"}
			case "ttl-zero":
				n.AllocationType = &v1beta1.AllocationType{Type: v1beta1.IPAllocTypeFixed, ReleaseStrategy: v1beta1.ReleaseStrategyTTL, ReleaseAfter: "0s"}
			}
			if i > 0 && sp.Fixed != "" && h.rng.Intn(2) == 0 {
				n.AllocationType = nil // mixed: only some interfaces fixed
			}
			nets = append(nets, n)
		}
		raw, _ := json.Marshal(map[string]any{"podNetworks": nets})
		obj.Annotations[types.PodNetworks] = string(raw)
	}
	obj.Status.Phase = corev1.PodRunning
	return obj
}

// ---- kubelet / scheduler simulator ----

func (h *peHist) createPod(name string) {
	m := h.mon
	m.mu.Lock()
	if p := m.cur[name]; p != nil && p.Exists {
		m.mu.Unlock()
		return
	}
	h.uidGen++
	p := &pePod{Name: name, UID: fmt.Sprintf("uid-%s-%d", name, h.uidGen), Node: []string{"node-1", "node-2"}[h.rng.Intn(2)], Exists: true}
	m.cur[name], m.byUID[p.UID] = p, p
	m.clock++
	m.ev("pod %s created uid=%s on %s (fixed=%q owner=%q nifs=%d)", name, p.UID, p.Node, m.spec[name].Fixed, m.spec[name].Owner, m.spec[name].NIfs)
	m.mu.Unlock()
	if err := h.cl.Create(context.Background(), h.podObject(p)); err != nil {
		h.c.R.Inconclusive("cannot create pod object: " + err.Error())
	}
}

func (h *peHist) getPod(name string) *corev1.Pod {
	obj := &corev1.Pod{}
	if err := h.cl.Get(context.Background(), client.ObjectKey{Namespace: "ns", Name: name}, obj); err != nil {
		return nil
	}
	return obj
}

// terminate: the API delete (deletionTimestamp set, containers still running).
func (h *peHist) terminate(p *pePod) {
	if obj := h.getPod(p.Name); obj != nil && obj.DeletionTimestamp.IsZero() {
		_ = h.cl.Delete(context.Background(), obj)
		h.mon.mu.Lock()
		p.Terminating = true
		h.mon.clock++
		h.mon.ev("pod %s uid=%s terminating", p.Name, p.UID)
		h.mon.mu.Unlock()
	}
}

// exit: the sandbox is gone, kubelet reports a final phase.
func (h *peHist) exit(p *pePod) {
	if obj := h.getPod(p.Name); obj != nil {
		obj.Status.Phase = []corev1.PodPhase{corev1.PodSucceeded, corev1.PodFailed}[h.rng.Intn(2)]
		h.mon.mu.Lock()
		p.Exited = true
		h.mon.clock++
		h.mon.ev("pod %s uid=%s sandbox exited (%s)", p.Name, p.UID, obj.Status.Phase)
		h.mon.mu.Unlock()
		_ = h.cl.Status().Update(context.Background(), obj)
	}
}

// remove: the pod object disappears (kubelet finished, or force delete while running).
func (h *peHist) remove(p *pePod) {
	if obj := h.getPod(p.Name); obj != nil {
		h.mon.mu.Lock()
		p.Exists, p.Exited = false, true // a force-deleted pod: its sandbox is killed with it
		if m := h.mon; m.lastSeen == nil {
			m.lastSeen = map[string]time.Time{}
		}
		h.mon.lastSeen[p.Name] = time.Now()
		h.mon.clock++
		h.mon.ev("pod %s uid=%s object removed", p.Name, p.UID)
		h.mon.mu.Unlock()
		if obj.DeletionTimestamp.IsZero() {
			_ = h.cl.Delete(context.Background(), obj)
			obj = h.getPod(p.Name)
		}
		if obj != nil {
			obj.Finalizers = nil
			_ = h.cl.Update(context.Background(), obj)
		}
	}
}

// ---- deliveries ----

func (h *peHist) deliverPod(name string) {
	h.mon.note("deliver pod/%s", name)
	h.safe("pod", func() {
		_, _ = h.pctl.Reconcile(context.Background(), reconcile.Request{NamespacedName: k8stypes.NamespacedName{Namespace: "ns", Name: name}})
	})
}
func (h *peHist) deliverENI(name string) {
	h.mon.note("deliver podeni/%s", name)
	h.safe("podeni", func() {
		_, _ = h.ectl.Reconcile(context.Background(), reconcile.Request{NamespacedName: k8stypes.NamespacedName{Namespace: "ns", Name: name}})
	})
}

// deliverDeposed: the old leader's snapshot advances a little (never past the present), then it reconciles.
func (h *peHist) deliverDeposed(name string, eni bool) {
	if h.dpctl == nil {
		return
	}
	h.verMu.Lock()
	now := h.seq
	h.verMu.Unlock()
	h.dcache.mu.Lock()
	if gap := now - h.dcache.asOf; gap > 0 {
		h.dcache.asOf += h.rng.Intn(gap/2 + 1)
	}
	asOf := h.dcache.asOf
	h.dcache.mu.Unlock()
	h.mon.note("deliver to the deposed leader (snapshot %d of %d) podeni=%v %s", asOf, now, eni, name)
	h.mon.r.Count("deposed_leader_deliveries", 1)
	req := reconcile.Request{NamespacedName: k8stypes.NamespacedName{Namespace: "ns", Name: name}}
	h.mon.mu.Lock()
	h.mon.inDeposed = true
	h.mon.mu.Unlock()
	defer func() {
		h.mon.mu.Lock()
		h.mon.inDeposed = false
		h.mon.mu.Unlock()
	}()
	h.safe("deposed", func() {
		if eni {
			_, _ = h.dectl.Reconcile(context.Background(), req)
		} else {
			_, _ = h.dpctl.Reconcile(context.Background(), req)
		}
	})
}

// deliverDeposedAt: as deliverDeposed, the snapshot stays where the caller put it.
func (h *peHist) deliverDeposedAt(name string, eni bool) {
	h.mon.note("deliver to the deposed leader (snapshot %d) podeni=%v %s", h.dcache.asOf, eni, name)
	h.mon.r.Count("deposed_leader_deliveries", 1)
	req := reconcile.Request{NamespacedName: k8stypes.NamespacedName{Namespace: "ns", Name: name}}
	h.mon.mu.Lock()
	h.mon.inDeposed = true
	h.mon.mu.Unlock()
	defer func() {
		h.mon.mu.Lock()
		h.mon.inDeposed = false
		h.mon.mu.Unlock()
	}()
	h.safe("deposed", func() {
		if eni {
			_, _ = h.dectl.Reconcile(context.Background(), req)
		} else {
			_, _ = h.dpctl.Reconcile(context.Background(), req)
		}
	})
}

func (h *peHist) safe(who string, f func()) {
	h.inCtl.Add(1)
	defer h.inCtl.Add(-1)
	defer func() {
		if e := recover(); e != nil {
			h.mon.mu.Lock()
			h.mon.violate(h.mon.prop, h.mon.prop+".reconcile-panic", who, fmt.Sprint(e))
			h.mon.mu.Unlock()
		}
	}()
	f()
}
func (h *peHist) gcRecords() {
	h.mon.note("gc records")
	h.safe("gc", func() { h.ectl.VerifGCCRPodENIs(context.Background()) })
}
func (h *peHist) gcInterfaces() {
	if h.walking && h.cfg.APIFaults && h.rng.Intn(3) == 0 {
		// the collector's own list of the records fails: it must not conclude that nothing is referenced
		h.apiMu.Lock()
		h.listFlt = 1
		h.apiMu.Unlock()
		defer func() {
			h.apiMu.Lock()
			h.listFlt = 0
			h.apiMu.Unlock()
		}()
	}
	h.mon.mu.Lock()
	h.mon.inGC = true
	h.mon.clock++
	h.mon.ev("gc interfaces")
	h.mon.mu.Unlock()
	h.safe("gc", func() {
		h.ectl.VerifGCSecondaryENI(context.Background())
		h.ectl.VerifGCMemberENI(context.Background())
	})
	h.mon.mu.Lock()
	h.mon.inGC = false
	h.mon.mu.Unlock()
}

// elapse: d passes for the records of pods that are gone: their last-seen stamps (the record's and the harness's own)
// move d into the past. Records of pods that exist are kept fresh by the collector and are left alone.
func (h *peHist) elapse(d time.Duration) {
	h.mon.mu.Lock()
	var names []string
	for n, p := range h.mon.cur {
		if !p.live() {
			names = append(names, n)
			if t, ok := h.mon.lastSeen[n]; ok {
				h.mon.lastSeen[n] = t.Add(-d)
			}
		}
	}
	h.mon.clock++
	h.mon.ev("%s pass for the records of absent pods %v", d, names)
	h.mon.mu.Unlock()
	for _, n := range names {
		rec := &v1beta1.PodENI{}
		if err := h.cl.Get(context.Background(), client.ObjectKey{Namespace: "ns", Name: n}, rec); err != nil || rec.Status.PodLastSeen.IsZero() {
			continue
		}
		rec.Status.PodLastSeen = metav1.NewTime(rec.Status.PodLastSeen.Add(-d))
		_ = h.cl.Status().Update(context.Background(), rec)
	}
}

// age: cloud time passes for the interfaces that exist now (creation time moves 11 minutes back).
func (h *peHist) age() {
	h.cloud.Mutate(func(c *cloudsim.CtrlCloud) {
		for _, e := range c.ENIs {
			if t, err := time.Parse("2006-01-02T15:04:05Z", e.CreationTime); err == nil {
				e.CreationTime = t.Add(-11 * time.Minute).Format("2006-01-02T15:04:05Z")
			}
		}
	})
	h.mon.note("11 minutes pass for the existing interfaces")
}

func (h *peHist) names() []string {
	var out []string
	for n := range h.mon.spec {
		out = append(out, n)
	}
	sort.Strings(out)
	return out
}

func peRandomWalk(h *peHist) {
	rng := h.rng
	h.irng = rand.New(rand.NewSource(rng.Int63()))
	h.walking = true
	defer func() { h.walking = false }()
	names := h.names()
	for step := 0; step < h.cfg.Steps; step++ {
		name := names[rng.Intn(len(names))]
		h.mon.mu.Lock()
		p := h.mon.cur[name]
		h.mon.mu.Unlock()
		switch k := rng.Intn(100); {
		case k < 14:
			h.createPod(name)
		case k < 40:
			h.deliverPod(name)
		case k < 66:
			h.deliverENI(name)
		case k < 73 && p != nil && p.Exists:
			if !p.Terminating {
				h.terminate(p)
			} else if !p.Exited {
				h.exit(p)
			} else {
				h.remove(p)
			}
		case k < 77 && p != nil && p.Exists:
			h.remove(p) // force delete
		case k < 80 && p != nil && p.Exists && !p.Exited:
			h.exit(p) // a pod that runs to completion
		case k < 85:
			h.gcRecords()
		case k < 88:
			h.gcInterfaces()
		case k < 90:
			h.age()
		case k < 97 && k >= 94 && h.cfg.Deposed:
			h.deliverDeposed(name, rng.Intn(2) == 0)
		case k < 94 && h.cfg.APIFaults:
			h.apiMu.Lock()
			h.apiFlt += 1 + rng.Intn(2)
			h.apiMu.Unlock()
		default:
			h.deliverPod(name)
			h.deliverENI(name)
		}
	}
}

// peSettle: faults stop, every lifecycle completes, both controllers get `rounds` deliveries per name.
func peSettle(h *peHist, rounds int, withGC bool) {
	h.cloud.StopFaults()
	h.apiMu.Lock()
	h.apiFlt = 0
	h.apiMu.Unlock()
	for _, n := range h.names() {
		h.mon.mu.Lock()
		p := h.mon.cur[n]
		h.mon.mu.Unlock()
		if p != nil && p.Exists && p.Terminating {
			if !p.Exited {
				h.exit(p)
			}
			h.remove(p)
		}
	}
	for i := 0; i < rounds; i++ {
		for _, n := range h.names() {
			h.deliverPod(n)
			h.deliverENI(n)
		}
		if withGC && i%5 == 4 {
			h.gcRecords()
		}
	}
}

// peJudgeEnd: bounded progress and leaks (C10 c, d).
func peJudgeEnd(h *peHist) {
	m := h.mon
	snap := h.cloud.Snapshot()
	m.mu.Lock()
	defer m.mu.Unlock()
	ref := map[string]string{}
	for name, rec := range m.recs {
		for _, a := range rec.Spec.Allocations {
			ref[a.ENI.ID] = name
		}
	}
	for name, sp := range m.spec {
		p := m.cur[name]
		rec := m.recs[name]
		if p.live() {
			if rec != nil && peState(rec) == "bound" && rec.Annotations[types.PodUID] == p.UID {
				m.r.Count("live_pods_bound_at_end", 1)
			}
			continue
		}
		if sp.Fixed == "" || (rec != nil && !rec.Spec.HaveFixedIP()) {
			if rec != nil {
				m.violate("C10", "C10.record-not-removed", peState(rec), fmt.Sprintf("pod %s (no fixed IP) is gone, faults stopped, and after 30 deliveries to both controllers its record is still there (%s)", name, peState(rec)))
			} else {
				m.r.Count("nonfixed_records_removed", 1)
			}
		}
	}
	for id, e := range snap.ENIs {
		if e.Deleted || e.Tags[types.NetworkInterfaceTagCreatorKey] != types.TagTerwayController {
			continue
		}
		if _, ok := ref[id]; ok {
			continue
		}
		if !m.createdOK[id] || m.delFaulted[id] {
			m.r.Count("unreferenced_interfaces_not_judged_faulted_rollback", 1)
			continue
		}
		m.violate("C10", "C10.interface-without-record", e.Status, fmt.Sprintf("interface %s (%s, attached to %q) was created by the pod controller, no record references it and no delete of it was attempted and failed", id, e.Status, e.InstanceID))
	}
}

func (h *peHist) finish(r *monitor.Result) {
	m := h.mon
	m.mu.Lock()
	defer m.mu.Unlock()
	var es []string
	for e, n := range m.edges {
		r.Count("edge:"+e, int64(n))
		es = append(es, e)
	}
	sort.Strings(es)
	r.Count("cloud_detach_delete_calls_guarded", int64(m.guarded))
	r.Count("cloud_mutating_calls", int64(h.cloud.MutatingCalls()))
	r.DistinctKey(fmt.Sprintf("%s/tr%v/ex%v/%s", m.prop, h.cfg.Trunk, h.cfg.Exclusive, strings.Join(es, ",")))
}

func runPeHistories(c *ctxT, prop string, n, width int, mk func(rng *rand.Rand) peCfg, body func(h *peHist)) {
	peSetGlobals(c)
	sem := make(chan struct{}, width)
	var wg sync.WaitGroup
	base := c.R.Seed*7919 + int64(c.Batch)*1000003
	only := -1
	if v := os.Getenv("VERIF_ONLY_HISTORY"); v != "" {
		fmt.Sscan(v, &only)
	}
	for i := 0; i < n; i++ {
		hid := c.Batch*100000 + i
		if only >= 0 && hid != only {
			continue
		}
		wg.Add(1)
		sem <- struct{}{}
		go func(i, hid int) {
			defer wg.Done()
			defer func() { <-sem }()
			seed := base + int64(i)*104729
			rng := rand.New(rand.NewSource(seed))
			cfg := mk(rng)
			fmt.Printf("CASE %s history %d seed %d cfg %+v\n", prop, hid, seed, cfg)
			h := newPeHist(c, prop, hid, cfg, seed)
			body(h)
			c.R.Eval(1)
			h.finish(c.R)
			if i < 1 && c.Batch == 0 {
				h.mon.mu.Lock()
				ev := h.mon.events
				if len(ev) > 60 {
					ev = ev[:60]
				}
				c.R.Sample(map[string]any{"history": hid, "config": cfg, "first_events": append([]string(nil), ev...)})
				h.mon.mu.Unlock()
			}
		}(i, hid)
	}
	wg.Wait()
}

func peRace(stack string) (string, bool) {
	for _, s := range []string{"terway/pkg/controller/pod", "terway/pkg/controller/pod-eni", "terway/pkg/controller/status", "terway/pkg/vswitch"} {
		if strings.Contains(stack, s) {
			return s, true
		}
	}
	return "", false
}

func k8sUID(s string) k8stypes.UID { return k8stypes.UID(s) }
