package main

// C13 — the programmed datapath routes pod traffic as intended and is fully removed.
//
// Kernel monitor (policy-route veth, exclusive ENI): per case a fresh host network namespace with a veth
// acting as the ENI, 1-4 pod namespaces; the real PolicyRoute / ExclusiveENI Setup and Teardown and
// GenericTearDown run against the kernel; after every step the kernel is asked (FIB lookups, rule / route /
// link / address dumps) whether the routing intent holds.
//
// Configuration monitor (all four datapaths incl. ipvlan and vlan, whose devices this kernel lacks): the
// per-link configuration generators are called on generated SetupConfigs with stub links and the resulting
// nic.Conf sets are judged against the same intent (c13cfg.go).

import (
	"context"
	"fmt"
	"math/rand"
	"net"
	"os"
	"runtime"
	"sort"
	"strings"
	"time"

	cniTypes "github.com/containernetworking/cni/pkg/types"
	"github.com/containernetworking/plugins/pkg/ns"
	"github.com/containernetworking/plugins/pkg/testutils"
	"github.com/vishvananda/netlink"
	"golang.org/x/sys/unix"

	"github.com/AliyunContainerService/terway/pkg/link"
	"github.com/AliyunContainerService/terway/plugin/datapath"
	dtypes "github.com/AliyunContainerService/terway/plugin/driver/types"
	"github.com/AliyunContainerService/terway/plugin/driver/utils"
	ttypes "github.com/AliyunContainerService/terway/types"
)

func init() {
	register("C13", &checkDef{level: "exploration", fn: runC13, netns: true,
		batches:  func(th bool) int { return map[bool]int{false: 4, true: 12}[th] },
		parallel: func(bool) int { return 4 },
		timeout: func(th bool) time.Duration {
			return map[bool]time.Duration{false: 20 * time.Minute, true: 90 * time.Minute}[th]
		},
	})
}

type c13Pod struct {
	name    string
	ns      ns.NetNS
	v4, v6  *net.IPNet // pod address with the vSwitch mask
	hostIf  string
	setup   bool
	torn    bool
	defRt   bool
	multi   bool
	extra   []cniTypes.Route
	egress  uint64
	ingress uint64
	eni     int  // which of the world's ENIs owns the pod's address
	gone    bool // the sandbox vanished without a CNI DEL (crash): its veth is gone, its rules are left behind
	supers  bool // the pod object is gone and its address serves a new pod while this sandbox still stands
}

type c13World struct {
	c       *ctxT
	hid     int
	rng     *rand.Rand
	host    ns.NetNS
	vpc     ns.NetNS
	eniIdx  int
	eniName string
	enis    []int // link indexes of the ENIs (eni0, eni1)
	v4, v6  bool
	gw4     net.IP
	gw6     net.IP
	hostIP  *ttypes.IPNetSet
	pods    []*c13Pod
	events  []string
}

func (w *c13World) ev(f string, a ...any) {
	s := fmt.Sprintf(f, a...)
	if os.Getenv("VERIF_ONLY_HISTORY") != "" {
		fmt.Println("EV", s)
	}
	w.events = append(w.events, s)
}

func (w *c13World) violate(class, site, detail string) {
	ev := w.events
	if len(ev) > 200 {
		ev = ev[len(ev)-200:]
	}
	w.c.R.Violate(class, site, fmt.Sprintf("case %d: %s", w.hid, detail), map[string]any{"case": w.hid, "events": append([]string(nil), ev...)})
}

func runC13(c *ctxT) {
	r := c.R
	r.Rule = "Kernel monitor: for generated configurations (IPv4 / IPv6 / dual stack; default route on/off; multi-network; extra routes with and without gateway; 1-4 pods sharing one ENI; setup and teardown in PRNG order; repeated setup) the real PolicyRoute.Setup/Teardown, ExclusiveENI.Setup and GenericTearDown program a private kernel namespace; after every step the kernel FIB is queried: host: dst = pod address -> out of that pod's host veth; host: traffic sourced from the pod arriving on its veth -> out of the ENI via the ENI's gateway; pod: external destination -> its interface via the configured gateway, exactly one default route per enabled family, nothing of a disabled family; after teardown of a pod no rule, route, neighbour or link in the host namespace mentions its address or veth and the dump restricted to the other pods is unchanged. Configuration monitor: the generators of all four datapaths (policy route, exclusive ENI, ipvlan, vlan) on generated SetupConfigs with stub links, judged against the same intent. distinct = configuration signature"
	r.Assumptions = []string{"no packets are sent: delivery is judged by kernel FIB lookups", "ipvlan, vlan, vlan-strip, network-priority and EDT paths are decided at configuration level only (the kernel of this sandbox lacks ipvlan/vlan/dummy devices and the tc actions)", "an exclusive ENI is modelled by a veth end, so its hand-back at teardown (a *netlink.Device is renamed and moved, a veth is deleted) is not judged"}
	runtime.LockOSThread()
	_ = os.MkdirAll("/var/run/netns", 0o755)
	if err := unix.Mount("tmpfs", "/var/run/netns", "tmpfs", 0, ""); err != nil {
		r.Inconclusive("cannot mount a private /var/run/netns: " + err.Error())
		return
	}
	n := 40
	nCfg := 4000
	if c.Thorough {
		n, nCfg = 400, 60000
	}
	base := c.R.Seed*7919 + int64(c.Batch)*1000003
	only := -1
	if v := os.Getenv("VERIF_ONLY_HISTORY"); v != "" {
		fmt.Sscan(v, &only)
	}
	for i := 0; i < n; i++ {
		hid := c.Batch*100000 + i
		if only >= 0 && hid != only {
			continue
		}
		rng := rand.New(rand.NewSource(base + int64(i)*104729))
		fmt.Printf("CASE C13 kernel %d\n", hid)
		c13KernelCase(c, hid, rng)
	}
	if only < 0 {
		rng := rand.New(rand.NewSource(base + 99))
		for i := 0; i < nCfg; i++ {
			c13ConfigCase(c, c.Batch*1000000+i, rng)
		}
	}
}

func c13CIDR(s string) *net.IPNet {
	ip, n, err := net.ParseCIDR(s)
	if err != nil {
		panic(err)
	}
	n.IP = ip
	return n
}

func c13KernelCase(c *ctxT, hid int, rng *rand.Rand) {
	w := &c13World{c: c, hid: hid, rng: rng}
	var err error
	if w.host, err = testutils.NewNS(); err != nil {
		c.R.Inconclusive("cannot create a network namespace: " + err.Error())
		return
	}
	defer func() { _ = w.host.Close(); _ = testutils.UnmountNS(w.host) }()
	if w.vpc, err = testutils.NewNS(); err != nil {
		c.R.Inconclusive("cannot create a network namespace: " + err.Error())
		return
	}
	defer func() { _ = w.vpc.Close(); _ = testutils.UnmountNS(w.vpc) }()
	switch rng.Intn(4) {
	case 0:
		w.v4 = true
	case 1:
		w.v6 = true
	default:
		w.v4, w.v6 = true, true
	}
	w.gw4, w.gw6 = net.ParseIP("10.7.255.253"), net.ParseIP("fd00:7::fffd")
	w.hostIP = &ttypes.IPNetSet{}
	if w.v4 {
		w.hostIP.IPv4 = c13CIDR("10.7.0.2/16")
	}
	if w.v6 {
		w.hostIP.IPv6 = c13CIDR("fd00:7::2/64")
	}
	exclusive := rng.Intn(4) == 0
	nPods := 1 + rng.Intn(4)
	if exclusive {
		nPods = 1
	}
	err = w.host.Do(func(ns.NetNS) error {
		w.eniName = "eni0"
		if err := netlink.LinkAdd(&netlink.Veth{LinkAttrs: netlink.LinkAttrs{Name: w.eniName, MTU: 1500}, PeerName: "vpc0"}); err != nil {
			return fmt.Errorf("veth: %w", err)
		}
		peer, err := netlink.LinkByName("vpc0")
		if err != nil {
			return err
		}
		if err := netlink.LinkSetNsFd(peer, int(w.vpc.Fd())); err != nil {
			return err
		}
		eni, err := netlink.LinkByName(w.eniName)
		if err != nil {
			return err
		}
		w.eniIdx = eni.Attrs().Index
		w.enis = []int{w.eniIdx}
		if !exclusive {
			if err := netlink.LinkAdd(&netlink.Veth{LinkAttrs: netlink.LinkAttrs{Name: "eni1", MTU: 1500}, PeerName: "vpc1"}); err != nil {
				return fmt.Errorf("veth: %w", err)
			}
			if peer, err := netlink.LinkByName("vpc1"); err == nil {
				_ = netlink.LinkSetNsFd(peer, int(w.vpc.Fd()))
			}
			e1, err := netlink.LinkByName("eni1")
			if err != nil {
				return err
			}
			w.enis = append(w.enis, e1.Attrs().Index)
		}
		if lo, err := netlink.LinkByName("lo"); err == nil {
			_ = netlink.LinkSetUp(lo)
		}
		return utils.EnsureHostNsConfig(w.v4, w.v6)
	})
	if err != nil {
		c.R.Inconclusive("cannot prepare the host namespace: " + err.Error())
		return
	}
	_ = w.vpc.Do(func(ns.NetNS) error {
		if l, err := netlink.LinkByName("vpc0"); err == nil {
			_ = netlink.LinkSetUp(l)
		}
		return nil
	})
	for i := 0; i < nPods; i++ {
		p := &c13Pod{name: fmt.Sprintf("pod-%d", i), defRt: rng.Intn(5) != 0, multi: rng.Intn(4) == 0}
		if p.ns, err = testutils.NewNS(); err != nil {
			c.R.Inconclusive("cannot create a network namespace: " + err.Error())
			return
		}
		defer func(p *c13Pod) { _ = p.ns.Close(); _ = testutils.UnmountNS(p.ns) }(p)
		if w.v4 {
			p.v4 = c13CIDR(fmt.Sprintf("10.7.%d.%d/16", 1+rng.Intn(200), 2+i))
		}
		if w.v6 {
			p.v6 = c13CIDR(fmt.Sprintf("fd00:7::%x:%x/64", 1+rng.Intn(200), 2+i))
		}
		p.hostIf, _ = link.VethNameForPod(p.name, "ns", "", "cali")
		if !exclusive {
			p.eni = rng.Intn(2)
		}
		if rng.Intn(3) == 0 {
			if w.v4 {
				p.extra = append(p.extra, cniTypes.Route{Dst: *c13CIDR("172.31.0.0/16")}, cniTypes.Route{Dst: *c13CIDR("192.168.77.0/24"), GW: net.ParseIP("169.254.1.1")})
			}
			if w.v6 {
				p.extra = append(p.extra, cniTypes.Route{Dst: *c13CIDR("fd00:99::/64")})
			}
		}
		w.pods = append(w.pods, p)
	}
	sig := fmt.Sprintf("v4%v/v6%v/excl%v/pods%d", w.v4, w.v6, exclusive, nPods)
	for _, p := range w.pods {
		sig += fmt.Sprintf("/d%vm%vx%d", p.defRt, p.multi, len(p.extra))
	}
	c.R.DistinctKey("kernel/" + sig)
	w.ev("world %s", sig)

	if exclusive {
		w.exclusiveCase()
		c.R.Eval(1)
		c.R.Count("kernel_cases_exclusive_eni", 1)
		if hid%100000 < 4 {
			ev := w.events
			if len(ev) > 60 {
				ev = ev[:60]
			}
			c.R.Sample(map[string]any{"case": hid, "world": sig, "events": append([]string(nil), ev...)})
		}
		return
	}
	// policy route: setups and teardowns in PRNG order, some setups repeated
	steps := 0
	for steps < 4*nPods+2 {
		steps++
		p := w.pods[rng.Intn(len(w.pods))]
		switch {
		case !p.setup || (!p.torn && !p.supers && rng.Intn(4) == 0):
			if p.torn {
				continue
			}
			w.policySetup(p)
		case !p.torn && !p.supers && rng.Intn(4) == 0:
			// the sandbox vanishes without CNI DEL (its veth goes with it, its host rules stay behind) and the
			// address is given to a new pod on the other ENI
			w.crashAndReuse(p)
		case !p.torn && !p.supers && rng.Intn(5) == 0:
			// the pod object is force-deleted, the address goes to a new pod at once, the old sandbox (and its host
			// veth, route and rules) is still there: the address must now lead to the new pod
			w.reuseWhileAlive(p)
		case !p.torn && !p.supers && rng.Intn(2) == 0:
			w.policyTeardown(p)
		case !p.torn && p.supers && rng.Intn(2) == 0:
			w.reapSuperseded(p)
		}
		w.judgeAll()
	}
	for _, p := range w.pods {
		if p.setup && !p.torn {
			if p.supers {
				w.reapSuperseded(p)
			} else {
				w.policyTeardown(p)
			}
			w.judgeAll()
		}
	}
	for _, p := range w.pods[nPods:] {
		_ = p.ns.Close()
		_ = testutils.UnmountNS(p.ns)
	}
	c.R.Eval(1)
	c.R.Count("kernel_cases_policy_route", 1)
	if hid%100000 < 4 {
		ev := w.events
		if len(ev) > 60 {
			ev = ev[:60]
		}
		c.R.Sample(map[string]any{"case": hid, "world": sig, "events": append([]string(nil), ev...)})
	}
}

func (w *c13World) setupCfg(p *c13Pod, dp dtypes.DataPath) *dtypes.SetupConfig {
	cfg := &dtypes.SetupConfig{DP: dp, HostVETHName: p.hostIf, ContainerIfName: "eth0", ContainerIPNet: &ttypes.IPNetSet{IPv4: p.v4, IPv6: p.v6},
		GatewayIP: &ttypes.IPSet{}, MTU: 1500, ENIIndex: w.enis[p.eni], DefaultRoute: p.defRt, MultiNetwork: p.multi, ExtraRoutes: p.extra, HostIPSet: w.hostIP,
		ServiceCIDR: &ttypes.IPNetSet{}}
	if w.v4 {
		cfg.GatewayIP.IPv4 = w.gw4
		cfg.ServiceCIDR.IPv4 = c13CIDR("172.16.0.0/16")
	}
	if w.v6 {
		cfg.GatewayIP.IPv6 = w.gw6
		cfg.ServiceCIDR.IPv6 = c13CIDR("fd00:aa::/112")
	}
	return cfg
}

func (w *c13World) policySetup(p *c13Pod) {
	cfg := w.setupCfg(p, dtypes.PolicyRoute)
	err := w.host.Do(func(ns.NetNS) error {
		return datapath.NewPolicyRoute().Setup(context.Background(), cfg, p.ns)
	})
	w.ev("setup %s v4=%v v6=%v default=%v multi=%v extra=%d -> %v", p.name, p.v4, p.v6, p.defRt, p.multi, len(p.extra), err)
	w.c.R.Count("kernel_setups", 1)
	if err != nil {
		w.violate("C13.setup-failed", "policy-route", fmt.Sprintf("PolicyRoute.Setup of %s failed on a valid configuration: %v", p.name, err))
		p.torn = true
		return
	}
	p.setup = true
}

func (w *c13World) crashAndReuse(p *c13Pod) {
	_ = p.ns.Do(func(ns.NetNS) error {
		if l, err := netlink.LinkByName("eth0"); err == nil {
			return netlink.LinkDel(l)
		}
		return nil
	})
	p.torn, p.gone = true, true
	w.ev("sandbox of %s vanished without teardown", p.name)
	q := &c13Pod{name: p.name + "r", v4: p.v4, v6: p.v6, defRt: p.defRt, multi: p.multi, eni: 1 - p.eni}
	var err error
	if q.ns, err = testutils.NewNS(); err != nil {
		w.c.R.Inconclusive("cannot create a network namespace: " + err.Error())
		return
	}
	q.hostIf, _ = link.VethNameForPod(q.name, "ns", "", "cali")
	w.pods = append(w.pods, q)
	w.policySetup(q)
	w.c.R.Count("address_reused_on_other_eni_after_crash", 1)
}

func (w *c13World) reuseWhileAlive(p *c13Pod) {
	p.supers = true
	w.ev("pod object of %s is gone, its address is handed to a new pod while the sandbox stands", p.name)
	q := &c13Pod{name: p.name + "s", v4: p.v4, v6: p.v6, defRt: p.defRt, multi: p.multi, eni: p.eni}
	if w.rng.Intn(3) == 0 {
		q.eni = 1 - p.eni
	}
	var err error
	if q.ns, err = testutils.NewNS(); err != nil {
		w.c.R.Inconclusive("cannot create a network namespace: " + err.Error())
		return
	}
	q.hostIf, _ = link.VethNameForPod(q.name, "ns", "", "cali")
	w.pods = append(w.pods, q)
	w.policySetup(q)
	w.c.R.Count("address_reused_while_old_sandbox_stands", 1)
}

// reapSuperseded: the runtime finally removes the old sandbox. The daemon has no record of it any more, so the plugin
// only does its generic clean-up of the namespace; what serves the address now must not change.
func (w *c13World) reapSuperseded(p *c13Pod) {
	before := w.dumpHost()
	err := w.host.Do(func(ns.NetNS) error { return utils.GenericTearDown(context.Background(), p.ns) })
	w.ev("old sandbox of %s reaped (generic clean-up) -> %v", p.name, err)
	p.torn = true
	after := w.dumpHost()
	var b, a []string
	for _, l := range before {
		if !strings.Contains(l, p.hostIf) {
			b = append(b, l)
		}
	}
	for _, l := range after {
		if !strings.Contains(l, p.hostIf) {
			a = append(a, l)
		}
	}
	if strings.Join(a, "\n") != strings.Join(b, "\n") {
		w.violate("C13.teardown-touched-others", "host-dump/superseded", fmt.Sprintf("removing the old sandbox of %s changed host state that does not belong to it:\nbefore:\n%s\nafter:\n%s", p.name, diffLines(b, a), diffLines(a, b)))
	}
}

func (w *c13World) policyTeardown(p *c13Pod) {
	before := w.dumpHost()
	// the ENI may be unresolvable at teardown (detached already): index 0, or an index that no longer exists
	eniIdx := w.enis[p.eni]
	switch w.rng.Intn(5) {
	case 0:
		eniIdx = 0
	case 1:
		eniIdx = 9000 + w.rng.Intn(100)
	}
	w.ev("teardown %s with ENI index %d (real %d)", p.name, eniIdx, w.enis[p.eni])
	err := w.host.Do(func(ns.NetNS) error {
		if err := datapath.NewPolicyRoute().Teardown(context.Background(), &dtypes.TeardownCfg{DP: dtypes.PolicyRoute, HostVETHName: p.hostIf, ENIIndex: eniIdx, ContainerIfName: "eth0",
			ContainerIPNet: &ttypes.IPNetSet{IPv4: p.v4, IPv6: p.v6}}, p.ns); err != nil {
			return err
		}
		return utils.GenericTearDown(context.Background(), p.ns)
	})
	w.ev("teardown %s -> %v", p.name, err)
	w.c.R.Count("kernel_teardowns", 1)
	p.torn = true
	if err != nil {
		w.violate("C13.teardown-failed", "policy-route", fmt.Sprintf("teardown of %s failed: %v", p.name, err))
		return
	}
	after := w.dumpHost()
	// nothing of p may remain, everything else must be unchanged
	mine := func(l string) bool {
		if strings.Contains(l, p.hostIf) {
			return true
		}
		for _, n := range []*net.IPNet{p.v4, p.v6} {
			if n == nil {
				continue
			}
			ip := n.IP.String()
			for _, pre := range []string{" ", "="} {
				if strings.Contains(l, pre+ip+"/") || strings.Contains(l, pre+ip+" ") || strings.HasSuffix(l, pre+ip) {
					return true
				}
			}
		}
		return false
	}
	for _, l := range after {
		if mine(l) {
			w.violate("C13.teardown-leftover", strings.Fields(l)[0], fmt.Sprintf("after teardown of %s the host namespace still has: %s", p.name, l))
		}
	}
	var b, a []string
	for _, l := range before {
		if !mine(l) {
			b = append(b, l)
		}
	}
	for _, l := range after {
		if !mine(l) {
			a = append(a, l)
		}
	}
	if strings.Join(a, "\n") != strings.Join(b, "\n") {
		w.violate("C13.teardown-touched-others", "host-dump", fmt.Sprintf("teardown of %s changed host state that does not belong to it:\nbefore:\n%s\nafter:\n%s", p.name, diffLines(b, a), diffLines(a, b)))
	}
}

func diffLines(a, b []string) string {
	in := map[string]bool{}
	for _, l := range b {
		in[l] = true
	}
	var out []string
	for _, l := range a {
		if !in[l] {
			out = append(out, "  "+l)
		}
	}
	return strings.Join(out, "\n")
}

// dumpHost: rules, routes (all tables), links, addresses, permanent neighbours of the host namespace.
func (w *c13World) dumpHost() []string {
	var out []string
	_ = w.host.Do(func(ns.NetNS) error {
		out = c13Dump()
		return nil
	})
	return out
}

func c13Dump() []string {
	var out []string
	names := map[int]string{}
	links, _ := netlink.LinkList()
	for _, l := range links {
		names[l.Attrs().Index] = l.Attrs().Name
		out = append(out, fmt.Sprintf("link %s type=%s mtu=%d up=%v", l.Attrs().Name, l.Type(), l.Attrs().MTU, l.Attrs().Flags&net.FlagUp != 0))
		addrs, _ := netlink.AddrList(l, netlink.FAMILY_ALL)
		for _, a := range addrs {
			if a.IP.IsLinkLocalUnicast() && a.IP.To4() == nil {
				continue // kernel-generated fe80:: address
			}
			out = append(out, fmt.Sprintf("addr %s %s", l.Attrs().Name, a.IPNet.String()))
		}
		neighs, _ := netlink.NeighList(l.Attrs().Index, netlink.FAMILY_ALL)
		for _, n := range neighs {
			if n.State&netlink.NUD_PERMANENT != 0 {
				out = append(out, fmt.Sprintf("neigh %s %s lladdr=%s", l.Attrs().Name, n.IP, n.HardwareAddr))
			}
		}
	}
	for _, fam := range []int{netlink.FAMILY_V4, netlink.FAMILY_V6} {
		rules, _ := netlink.RuleList(fam)
		for _, r := range rules {
			out = append(out, fmt.Sprintf("rule fam=%d prio=%d src=%v dst=%v iif=%s oif=%s table=%d", fam, r.Priority, r.Src, r.Dst, r.IifName, r.OifName, r.Table))
		}
		routes, _ := netlink.RouteListFiltered(fam, &netlink.Route{Table: unix.RT_TABLE_UNSPEC}, netlink.RT_FILTER_TABLE)
		for _, rt := range routes {
			if rt.Table == unix.RT_TABLE_LOCAL || (rt.Dst != nil && rt.Dst.IP.IsLinkLocalUnicast() && rt.Dst.IP.To4() == nil) || (rt.Dst != nil && rt.Dst.IP.IsMulticast()) {
				continue
			}
			out = append(out, fmt.Sprintf("route fam=%d table=%d dst=%v dev=%s gw=%v scope=%d", fam, rt.Table, rt.Dst, names[rt.LinkIndex], rt.Gw, rt.Scope))
		}
	}
	sort.Strings(out)
	return out
}

func (w *c13World) judgeAll() {
	for _, p := range w.pods {
		if p.setup && !p.torn && !p.supers {
			w.judgePolicyPod(p)
		}
	}
}

// judgePolicyPod: the routing intent of one policy-route pod, asked of the kernel.
func (w *c13World) judgePolicyPod(p *c13Pod) {
	type fam struct {
		name string
		pod  *net.IPNet
		gw   net.IP
		ext  net.IP
		link net.IP
	}
	fams := []fam{}
	if p.v4 != nil {
		fams = append(fams, fam{"v4", p.v4, w.gw4, net.ParseIP("8.8.8.8"), net.ParseIP("169.254.1.1")})
	}
	if p.v6 != nil {
		fams = append(fams, fam{"v6", p.v6, w.gw6, net.ParseIP("2001:db8::1"), net.ParseIP("fe80::1")})
	}
	_ = w.host.Do(func(ns.NetNS) error {
		hv, err := netlink.LinkByName(p.hostIf)
		if err != nil {
			w.violate("C13.intent-host", "host-veth-missing", fmt.Sprintf("host veth %s of %s does not exist after setup", p.hostIf, p.name))
			return nil
		}
		for _, f := range fams {
			// host -> pod
			rts, err := netlink.RouteGet(f.pod.IP)
			w.c.R.Count("fib_queries", 1)
			if err != nil || len(rts) == 0 || rts[0].LinkIndex != hv.Attrs().Index {
				w.violate("C13.intent-host", "to-pod/"+f.name, fmt.Sprintf("host lookup of %s (pod %s) does not leave through its veth %s: %v %v", f.pod.IP, p.name, p.hostIf, rts, err))
			}
			// pod -> outside, arriving on the pod's veth
			rts, err = netlink.RouteGetWithOptions(f.ext, &netlink.RouteGetOptions{SrcAddr: f.pod.IP, Iif: p.hostIf})
			w.c.R.Count("fib_queries", 1)
			if err != nil || len(rts) == 0 || rts[0].LinkIndex != w.enis[p.eni] || !rts[0].Gw.Equal(f.gw) {
				w.violate("C13.intent-host", "from-pod/"+f.name, fmt.Sprintf("traffic from %s (pod %s) arriving on %s is not sent out of the ENI via %s: %v %v", f.pod.IP, p.name, p.hostIf, f.gw, rts, err))
			}
		}
		// nothing for a disabled family
		for _, l := range c13Dump() {
			if p.v4 == nil && strings.Contains(l, "fam=2 ") && strings.Contains(l, p.hostIf) {
				w.violate("C13.disabled-family", "host/v4", fmt.Sprintf("IPv4 is disabled for %s, the host namespace has: %s", p.name, l))
			}
			if p.v6 == nil && strings.Contains(l, "fam=10 ") && strings.Contains(l, p.hostIf) {
				w.violate("C13.disabled-family", "host/v6", fmt.Sprintf("IPv6 is disabled for %s, the host namespace has: %s", p.name, l))
			}
		}
		return nil
	})
	_ = p.ns.Do(func(ns.NetNS) error {
		eth, err := netlink.LinkByName("eth0")
		if err != nil {
			w.violate("C13.intent-pod", "eth0-missing", fmt.Sprintf("pod %s has no eth0 after setup", p.name))
			return nil
		}
		for _, f := range fams {
			famN := netlink.FAMILY_V4
			if f.name == "v6" {
				famN = netlink.FAMILY_V6
			}
			routes, _ := netlink.RouteListFiltered(famN, &netlink.Route{Table: unix.RT_TABLE_MAIN}, netlink.RT_FILTER_TABLE)
			defaults := 0
			for _, rt := range routes {
				if rt.Dst == nil || (rt.Dst.IP.IsUnspecified() && func() bool { o, _ := rt.Dst.Mask.Size(); return o == 0 }()) {
					defaults++
					if rt.LinkIndex != eth.Attrs().Index || !rt.Gw.Equal(f.link) {
						w.violate("C13.intent-pod", "default-route/"+f.name, fmt.Sprintf("pod %s default route is %v, want via %s dev eth0", p.name, rt, f.link))
					}
				}
			}
			want := 0
			if p.defRt {
				want = 1
			}
			if defaults != want {
				w.violate("C13.intent-pod", fmt.Sprintf("default-routes=%d/%s", defaults, f.name), fmt.Sprintf("pod %s has %d %s default routes in the main table, want %d", p.name, defaults, f.name, want))
			}
			if p.defRt || p.multi {
				rts, err := netlink.RouteGetWithOptions(f.ext, &netlink.RouteGetOptions{SrcAddr: f.pod.IP})
				w.c.R.Count("fib_queries", 1)
				if err != nil || len(rts) == 0 || rts[0].LinkIndex != eth.Attrs().Index {
					w.violate("C13.intent-pod", "external/"+f.name, fmt.Sprintf("pod %s lookup of %s from %s does not leave through eth0: %v %v", p.name, f.ext, f.pod.IP, rts, err))
				}
			}
			addrs, _ := netlink.AddrList(eth, famN)
			n := 0
			for _, a := range addrs {
				if a.IP.Equal(f.pod.IP) {
					n++
				}
			}
			if n != 1 {
				w.violate("C13.intent-pod", "address/"+f.name, fmt.Sprintf("pod %s eth0 carries its address %s %d times", p.name, f.pod.IP, n))
			}
		}
		for _, l := range c13Dump() {
			if strings.HasPrefix(l, "link ") || strings.Contains(l, " lo ") {
				continue
			}
			if strings.HasPrefix(l, "rule ") && strings.Contains(l, "oif=eth0") && ((p.v4 == nil && strings.Contains(l, "fam=2 ")) || (p.v6 == nil && strings.Contains(l, "fam=10 "))) {
				w.violate("C13.disabled-family", "pod/oif-rule", fmt.Sprintf("a family is disabled for %s, its namespace has: %s", p.name, l))
				continue
			}
			if p.v4 == nil && (strings.Contains(l, "fam=2 prio=512") || strings.Contains(l, "fam=2 prio=2048") || (strings.HasPrefix(l, "route fam=2") && strings.Contains(l, "eth0")) || (strings.HasPrefix(l, "addr eth0") && !strings.Contains(l, ":"))) {
				w.violate("C13.disabled-family", "pod/v4", fmt.Sprintf("IPv4 is disabled for %s, its namespace has: %s", p.name, l))
			}
			if p.v6 == nil && (strings.Contains(l, "fam=10 prio=512") || strings.Contains(l, "fam=10 prio=2048") || (strings.HasPrefix(l, "route fam=10") && strings.Contains(l, "eth0")) || (strings.HasPrefix(l, "addr eth0") && strings.Contains(l, ":"))) {
				w.violate("C13.disabled-family", "pod/v6", fmt.Sprintf("IPv6 is disabled for %s, its namespace has: %s", p.name, l))
			}
		}
		return nil
	})
	w.c.R.Count("pod_intent_judgements", 1)
}

// exclusiveCase: the ENI is moved into the pod; intent is asked inside the pod and on the host peer.
func (w *c13World) exclusiveCase() {
	p := w.pods[0]
	cfg := w.setupCfg(p, dtypes.ExclusiveENI)
	err := w.host.Do(func(ns.NetNS) error {
		return datapath.NewExclusiveENIDriver().Setup(context.Background(), cfg, p.ns)
	})
	w.ev("exclusive setup %s v4=%v v6=%v default=%v multi=%v -> %v", p.name, p.v4, p.v6, p.defRt, p.multi, err)
	w.c.R.Count("kernel_setups", 1)
	if err != nil {
		w.violate("C13.setup-failed", "exclusive-eni", fmt.Sprintf("ExclusiveENI.Setup of %s failed on a valid configuration: %v", p.name, err))
		return
	}
	type fam struct {
		name string
		pod  *net.IPNet
		gw   net.IP
		ext  net.IP
		svc  net.IP
		link net.IP
	}
	var fams []fam
	if p.v4 != nil {
		fams = append(fams, fam{"v4", p.v4, w.gw4, net.ParseIP("8.8.8.8"), net.ParseIP("172.16.3.4"), net.ParseIP("169.254.1.1")})
	}
	if p.v6 != nil {
		fams = append(fams, fam{"v6", p.v6, w.gw6, net.ParseIP("2001:db8::1"), net.ParseIP("fd00:aa::77"), net.ParseIP("fe80::1")})
	}
	_ = p.ns.Do(func(ns.NetNS) error {
		eth, err := netlink.LinkByName("eth0")
		if err != nil {
			w.violate("C13.intent-pod", "eth0-missing", fmt.Sprintf("pod %s has no eth0 after exclusive setup", p.name))
			return nil
		}
		v1, _ := netlink.LinkByName("veth1")
		for _, f := range fams {
			famN := netlink.FAMILY_V4
			if f.name == "v6" {
				famN = netlink.FAMILY_V6
			}
			routes, _ := netlink.RouteListFiltered(famN, &netlink.Route{Table: unix.RT_TABLE_MAIN}, netlink.RT_FILTER_TABLE)
			defaults := 0
			for _, rt := range routes {
				if rt.Dst == nil || (rt.Dst.IP.IsUnspecified() && func() bool { o, _ := rt.Dst.Mask.Size(); return o == 0 }()) {
					defaults++
					if rt.LinkIndex != eth.Attrs().Index || !rt.Gw.Equal(f.gw) {
						w.violate("C13.intent-pod", "default-route/"+f.name, fmt.Sprintf("pod %s default route is %v, want via %s dev eth0", p.name, rt, f.gw))
					}
				}
			}
			want := 0
			if p.defRt {
				want = 1
			}
			if defaults != want {
				w.violate("C13.intent-pod", fmt.Sprintf("default-routes=%d/%s", defaults, f.name), fmt.Sprintf("pod %s has %d %s default routes in the main table, want %d", p.name, defaults, f.name, want))
			}
			if p.defRt || p.multi {
				rts, err := netlink.RouteGetWithOptions(f.ext, &netlink.RouteGetOptions{SrcAddr: f.pod.IP})
				w.c.R.Count("fib_queries", 1)
				if err != nil || len(rts) == 0 || rts[0].LinkIndex != eth.Attrs().Index || !rts[0].Gw.Equal(f.gw) {
					w.violate("C13.intent-pod", "external/"+f.name, fmt.Sprintf("pod %s lookup of %s does not leave through the ENI via %s: %v %v", p.name, f.ext, f.gw, rts, err))
				}
			}
			if v1 != nil {
				rts, err := netlink.RouteGet(f.svc)
				w.c.R.Count("fib_queries", 1)
				if err != nil || len(rts) == 0 || rts[0].LinkIndex != v1.Attrs().Index {
					w.violate("C13.intent-pod", "service/"+f.name, fmt.Sprintf("pod %s lookup of the service address %s does not leave through veth1: %v %v", p.name, f.svc, rts, err))
				}
			}
		}
		return nil
	})
	_ = w.host.Do(func(ns.NetNS) error {
		hv, err := netlink.LinkByName(p.hostIf)
		if err != nil {
			w.violate("C13.intent-host", "host-veth-missing", fmt.Sprintf("host peer %s of %s does not exist after exclusive setup", p.hostIf, p.name))
			return nil
		}
		for _, f := range fams {
			rts, err := netlink.RouteGet(f.pod.IP)
			w.c.R.Count("fib_queries", 1)
			if err != nil || len(rts) == 0 || rts[0].LinkIndex != hv.Attrs().Index {
				w.violate("C13.intent-host", "to-pod/"+f.name, fmt.Sprintf("host lookup of %s (pod %s) does not leave through its peer %s: %v %v", f.pod.IP, p.name, p.hostIf, rts, err))
			}
		}
		return nil
	})
	w.c.R.Count("pod_intent_judgements", 1)
}
