package main

// C01 — a node never hands the same IP to two live pods. See pool.go for harness and monitor.

import (
	"math/rand"
	"time"
)

func init() {
	register("C01", &checkDef{level: "exploration", fn: runC01, race: poolRace,
		batches:  func(th bool) int { return map[bool]int{false: 4, true: 20}[th] },
		parallel: func(th bool) int { return 4 },
		timeout: func(th bool) time.Duration {
			return map[bool]time.Duration{false: 15 * time.Minute, true: 60 * time.Minute}[th]
		},
	})
}

func runC01(c *ctxT) {
	r := c.R
	n := 500
	if c.Thorough {
		n = 400
	}
	r.Rule = "one history = one node pool (real eni.Manager + Local/Trunk over the simulated cloud) with PRNG-chosen stack/slots/cap/batch/idle band/policy, 4..13 kubelet clients over 6..25 pods issuing ADD / repeated ADD / DEL / repeated DEL / cancelled ADD (pre-cancelled, 1-2ms, 5-100ms, 300-700ms), background balancer ticks, cloud syncs, remote address removals, cloud latency 0..30ms per call and 0..4 cloud faults. Oracle: interval ledger per address at the client boundary + provenance guard against the cloud call log, judged against what was known before the request was invoked. distinct = distinct canonical event-log signatures of histories in which at least one targeted window (release/delete/sync overlapping an in-flight ADD, cancellation) was hit"
	r.Assumptions = []string{"cloud is simulated at the factory.Factory boundary (fault vocabulary restricted to what pkg/factory/aliyun can return)", "requests for one pod are serialised by the caller, as the daemon's pending-pod set does", "on a failed ADD the caller releases what the manager returned, as daemon.AllocIP does"}
	runPoolHistories(c, "C01", n, 100, func(i int, rng *rand.Rand) poolCfg {
		cfg := genPoolCfg(rng, false)
		if rng.Intn(2) == 0 {
			cfg.Faults = genFaults(rng, rng.Intn(5), 30)
		}
		return cfg
	}, func(h *poolHist) {
		// let in-flight cloud calls settle, then compare pool ownership with the ledger
		h.settle(40)
		h.ownersAgree("C01")
	})
}
