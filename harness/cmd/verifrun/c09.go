package main

// C09 — vanished pods are garbage-collected on the node; existing pods never are.
// Real networkService.gcPods (hook: one pass) with the real k8s layer on the simulated API
// server, real store and pool, inside a private network namespace (GC issues netlink calls).
// The ENI whose MAC is lo's (reported as "" by the netlink library) is "attached in the kernel"; every other
// MAC models a record whose interface is no longer attached.

import (
	"context"
	"fmt"
	"net"
	"os"
	"sort"
	"strings"
	"sync"
	"syscall"
	"time"

	"github.com/vishvananda/netlink"
	corev1 "k8s.io/api/core/v1"
	apierrors "k8s.io/apimachinery/pkg/api/errors"
	"k8s.io/apimachinery/pkg/runtime/schema"
	"sigs.k8s.io/controller-runtime/pkg/client"

	"github.com/AliyunContainerService/terway/daemon"
	"github.com/AliyunContainerService/terway/types"
	tdaemon "github.com/AliyunContainerService/terway/types/daemon"

	"verifharness/apisim"
)

func init() {
	register("C09", &checkDef{level: "exploration", fn: runC09, netns: true, race: func(rep string) (string, bool) {
		if strings.Contains(rep, "terway/daemon.(*networkService)") {
			return "daemon-gc", true
		}
		return "", false
	},
		batches:  func(th bool) int { return map[bool]int{false: 8, true: 16}[th] },
		parallel: func(th bool) int { return 8 },
		timeout: func(th bool) time.Duration {
			return map[bool]time.Duration{false: 15 * time.Minute, true: 60 * time.Minute}[th]
		},
	})
}

type c09Pod struct {
	I         int
	Kind      string // running | succeeded | failed | vanished | moved | lookup-fail | sticky-vanished | sticky-running | recreated
	Detached  bool   // its ENI is not attached in the kernel
	V4, V6    string
	ENI       string
	Rules     bool // kernel policy rules were planted for it
	LegacyRec bool
}

func (p c09Pod) mustGo() bool { // absent from the node, the API server confirms it
	return p.Kind == "vanished" || p.Kind == "moved" || p.Kind == "sticky-vanished"
}

func runC09(c *ctxT) {
	r := c.R
	n := 15
	if c.Thorough {
		n = 150
	}
	r.Rule = "one case = one daemon with 6..14 stored records produced by real ADDs, then turned into: running / succeeded / failed (sandbox exited, object exists) / vanished / moved to another node / sticky (StatefulSet) vanished or running / recreated under the same name / API lookup failing; records on the kernel-attached ENI (lo's MAC) and on ENIs that are not attached; optional List failure in one pass, store delete failure for one record, concurrent ADD/DEL/GET traffic during GC. After passes 1..4: existing / lookup-failing pods untouched, absent pods collected within two successful passes (three for sticky), planted kernel rules of collected pods removed, an extra pass changes nothing. distinct = distinct multisets of (kind, detached) per case + fault flavour"
	r.Assumptions = []string{"the only kernel device of the private netns is lo: its MAC models 'interface attached', all other MACs 'interface no longer attached'", "API server simulated; a lookup failure is an injected error on GET of that pod"}
	if _, err := netlink.LinkByName("eth0"); err == nil {
		r.Inconclusive("C09 child is not in a private network namespace (eth0 visible)")
		return
	}
	if os.Getenv("VERIF_C09_LOOP_ONLY") != "" { // (diagnosis)
		c09LoopCase(c)
		return
	}
	base := r.Seed*7919 + int64(c.Batch)*1000003
	sem := make(chan struct{}, 1) // cases share the netns of this child (planted rules): one at a time
	var wg sync.WaitGroup
	for i := 0; i < n; i++ {
		wg.Add(1)
		sem <- struct{}{}
		go func(i int) {
			defer wg.Done()
			defer func() { <-sem }()
			c09Case(c, c.Batch*100000+i, base+int64(i)*104729)
		}(i)
	}
	wg.Wait()
	if c.Thorough && c.Batch == 0 {
		c09LoopCase(c)
	}
}

// c09LoopCase (thorough tier only: it needs one real period of wall clock): the daemon's own periodic collector is
// started, its first pass fails (the node's pod list is refused once). The loop must still be there one period
// later: a second listing of the node's pods has to arrive. The deadline (period + 120 s) is a watchdog on a 5-minute
// timer, two orders of magnitude above what the pass itself takes.
func c09LoopCase(c *ctxT) {
	r := c.R
	cfg := poolCfg{V4: true, Slots: 2, Cap: 10, Batch: 5, Pre: []int{4}, PreV6: []int{0}, MinIdle: 0, MaxIdle: 30, Policy: "most_ips", KernelMAC: true, LatencyUS: 200}
	d, err := newDHist(c, "C09", 990001, cfg, r.Seed, types.IPAMTypeDefault)
	if err != nil {
		r.Inconclusive(fmt.Sprintf("loop case: %v", err))
		return
	}
	defer d.stop()
	defer os.RemoveAll(d.dir)
	for i := 0; i < 2; i++ {
		d.ensurePod(i, false)
		if res := d.rpcAdd(context.Background(), i, "c0"); res.Err != nil {
			r.Inconclusive(fmt.Sprintf("loop case: setup ADD failed: %v", res.Err))
			return
		}
	}
	d.deletePod(0)
	var mu sync.Mutex
	lists, refused := 0, 0
	d.hooks.Set(func(h *apisim.Hooks) {
		h.BeforeList = func(ctx context.Context, list client.ObjectList) error {
			if _, ok := list.(*corev1.PodList); !ok {
				return nil
			}
			mu.Lock()
			defer mu.Unlock()
			lists++
			if lists == 1 {
				refused++
				return apierrors.NewServiceUnavailable("injected: apiserver unavailable")
			}
			return nil
		}
	})
	ctx, cancel := context.WithCancel(context.Background())
	defer cancel()
	go d.svc.VerifRunGCLoop(ctx)
	period := daemon.VerifGCPeriod()
	deadline := time.Now().Add(period + 120*time.Second)
	seen := 0
	for time.Now().Before(deadline) {
		time.Sleep(2 * time.Second)
		mu.Lock()
		seen = lists
		mu.Unlock()
		if seen >= 2 {
			break
		}
	}
	r.Eval(1)
	r.Count("collector_loop_cases", 1)
	r.DistinctKey("c09/loop/first-pass-refused")
	switch {
	case refused == 0:
		r.Inconclusive("loop case: the collector's first pass never listed the node's pods")
	case seen < 2:
		r.Violate("C09.collection-stopped-after-failed-pass", "loop", fmt.Sprintf("the periodic collector's first pass failed (pod list refused); %s later (period %s + 120 s) it has not listed the node's pods again: the loop is gone and nothing will be collected any more", period+120*time.Second, period), map[string]any{"lists": seen})
	default:
		r.Count("collector_loop_survived_failed_pass", 1)
	}
}

func c09Case(c *ctxT, hid int, seed int64) {
	r := c.R
	rng := dRand(seed)
	cfg := poolCfg{V4: true, V6: rng.Intn(3) == 0, Slots: 3, Cap: 10, Batch: 5, Pre: []int{8, 8}, PreV6: []int{8, 8}, MinIdle: 0, MaxIdle: 30, Policy: []string{"most_ips", "least_ips"}[rng.Intn(2)], KernelMAC: true, LatencyUS: 200}
	fmt.Printf("CASE C09 case %d seed %d\n", hid, seed)
	d, err := newDHist(c, "C09", hid, cfg, seed, types.IPAMTypeDefault)
	if err != nil {
		r.Inconclusive(fmt.Sprintf("case %d: %v", hid, err))
		return
	}
	defer d.stop()
	defer os.RemoveAll(d.dir)
	kinds := []string{"running", "running", "succeeded", "failed", "vanished", "vanished", "vanished", "moved", "lookup-fail", "sticky-vanished", "sticky-running", "recreated", "readd-during-gc", "readd-during-gc", "just-created"}
	np := 6 + rng.Intn(9)
	pods := make([]*c09Pod, np)
	for i := range pods {
		k := kinds[rng.Intn(len(kinds))]
		pods[i] = &c09Pod{I: i, Kind: k}
		if strings.HasPrefix(k, "sticky") {
			d.sticky[fmt.Sprintf("ns/p%d", i)] = true
		}
		d.ensurePod(i, false)
		res := d.rpcAdd(context.Background(), i, "c0")
		if res.Err != nil {
			r.Inconclusive(fmt.Sprintf("case %d: setup ADD failed: %v", hid, res.Err))
			return
		}
		pods[i].V4, pods[i].V6 = addrStr(res.V4), addrStr(res.V6)
		pods[i].ENI = d.eniByMAC(res.MAC)
		pods[i].Detached = res.MAC != ""
	}
	// legacy-format records are out of scope here (they are rewritten by the daemon on restart only)
	failing := map[string]bool{}
	for _, p := range pods {
		name := fmt.Sprintf("p%d", p.I)
		switch p.Kind {
		case "succeeded", "failed":
			cur := &corev1.Pod{}
			if err := d.cl.Get(context.Background(), client.ObjectKey{Namespace: "ns", Name: name}, cur); err == nil {
				cur.Status.Phase = map[string]corev1.PodPhase{"succeeded": corev1.PodSucceeded, "failed": corev1.PodFailed}[p.Kind]
				_ = d.cl.Status().Update(context.Background(), cur)
			}
		case "vanished", "sticky-vanished", "readd-during-gc":
			d.deletePod(p.I)
		case "moved":
			d.deletePod(p.I)
			np := d.podObj(p.I, "uid-moved-"+name)
			np.Spec.NodeName = "node-2"
			_ = d.cl.Create(context.Background(), np)
		case "recreated":
			d.ensurePod(p.I, true)
		case "lookup-fail":
			d.deletePod(p.I) // the pod is really gone, but the daemon cannot find that out
			failing[name] = true
		}
		// kernel rules as the plugin would have left them, for pods on the attached ENI
		if !p.Detached && p.V4 != "" && (p.mustGo() || p.Kind == "running") && rng.Intn(2) == 0 {
			_, ipn, _ := net.ParseCIDR(p.V4 + "/32")
			r1 := netlink.NewRule()
			r1.Priority, r1.Src, r1.Table = 2048, ipn, 1001
			r2 := netlink.NewRule()
			r2.Priority, r2.Dst, r2.Table = 512, ipn, 254
			if netlink.RuleAdd(r1) == nil && netlink.RuleAdd(r2) == nil {
				p.Rules = true
			}
		}
	}
	uncached := map[string]bool{}
	for _, p := range pods {
		if p.Kind == "just-created" {
			uncached[fmt.Sprintf("p%d", p.I)] = true
		}
	}
	listFailPass := 0
	if rng.Intn(4) == 0 {
		listFailPass = 1 + rng.Intn(2)
	}
	starvedPass := 0
	if rng.Intn(4) == 0 {
		starvedPass = 1 + rng.Intn(2)
	}
	pass := 0
	var hmu sync.Mutex
	// a pod that is re-created right after GC has looked it up (and found it gone): the trigger fires on the
	// GET the collector issues for that pod; later lookups of the pass are slowed so that the ADD can finish
	// while the pass is still running
	readdTrigger := map[string]func(){}
	readdNames := map[string]bool{}
	firstLookup := map[string]bool{}
	slowGets := false
	d.hooks.Set(func(h *apisim.Hooks) {
		h.BeforeGet = func(ctx context.Context, key client.ObjectKey, obj client.Object) error {
			if _, ok := obj.(*corev1.Pod); ok && failing[key.Name] {
				return apierrors.NewServiceUnavailable("injected: apiserver unavailable")
			}
			if _, ok := obj.(*corev1.Pod); ok {
				hmu.Lock()
				var fire []func()
				for k, f := range readdTrigger {
					// half of them at the collector's first lookup of the pass (the re-created pod's ADD completes
					// while the collector is still busy with other pods), the others at the lookup of their own name
					if firstLookup[k] {
						fire = append(fire, f)
						delete(readdTrigger, k)
					}
				}
				slow := slowGets && !readdNames[key.Name] // (the re-created pods' own requests are not slowed)
				hmu.Unlock()
				for _, f := range fire {
					go f()
				}
				if slow {
					time.Sleep(2 * time.Millisecond)
				} else {
					time.Sleep(300 * time.Microsecond)
				}
			}
			return nil
		}
		// a pod that was created and ADDed moments ago: reads served from the API server's watch cache
		// (resourceVersion=0: the node's pod list) do not show it during the first two passes, quorum reads do
		h.NotYetCached = func(pod *corev1.Pod) bool {
			hmu.Lock()
			defer hmu.Unlock()
			return uncached[pod.Name] && pass <= 2
		}
		h.AfterGet = func(ctx context.Context, key client.ObjectKey, obj client.Object, err error) {
			// the collector has just been told that this pod is gone: it is re-created now
			if _, ok := obj.(*corev1.Pod); !ok || err == nil {
				return
			}
			hmu.Lock()
			f := readdTrigger[key.Name]
			delete(readdTrigger, key.Name)
			hmu.Unlock()
			if f != nil {
				// the lookup's answer is held back until the re-created pod's ADD has completed, or for 25 ms when
				// it cannot (it waits for the collector): the schedule "ADD between lookup and collection" is
				// forced instead of hoped for
				done := make(chan struct{})
				go func() { f(); close(done) }()
				select {
				case <-done:
				case <-time.After(25 * time.Millisecond):
				}
			}
		}
		h.BeforeList = func(ctx context.Context, list client.ObjectList) error {
			hmu.Lock()
			defer hmu.Unlock()
			if _, ok := list.(*corev1.PodList); ok && pass == listFailPass && listFailPass > 0 {
				return apierrors.NewTimeoutError("injected: list timeout", 1)
			}
			return nil
		}
	})
	// the collector's record delete of a pod that is being re-created is slow (an existing suspension point:
	// a disk write), so that the re-created pod's ADD can finish first if nothing orders the two
	d.db.delErr = func(key string) error {
		hmu.Lock()
		slow := readdNames[strings.TrimPrefix(key, "ns/")]
		hmu.Unlock()
		if slow {
			time.Sleep(4 * time.Millisecond)
		}
		return nil
	}
	// one record whose store delete fails persistently (a pod whose cleanup cannot proceed)
	blocked := ""
	if rng.Intn(4) == 0 {
		var cands []string
		for _, p := range pods {
			if p.mustGo() {
				cands = append(cands, fmt.Sprintf("ns/p%d", p.I))
			}
		}
		if len(cands) > 1 {
			blocked = cands[rng.Intn(len(cands))]
			prevDel := d.db.delErr
			d.db.delErr = func(key string) error {
				if key == blocked {
					return fmt.Errorf("injected: bolt delete failed")
				}
				return prevDel(key)
			}
		}
	}
	traffic := rng.Intn(2) == 0
	type snap struct {
		recs   map[string]tdaemon.PodResources
		owners map[string]string
	}
	take := func() snap {
		s := snap{recs: d.records(), owners: map[string]string{}}
		for _, ips := range d.status().ENIs {
			for ip, ps := range ips {
				if ps[0] != "" {
					s.owners[ip] = ps[0]
				}
			}
		}
		return s
	}
	before := take()
	okPasses := 0
	var shape []string
	for _, p := range pods {
		shape = append(shape, fmt.Sprintf("%s/%v", p.Kind, p.Detached))
	}
	sort.Strings(shape)
	r.DistinctKey(fmt.Sprintf("c09/%s/list%d/blocked%v/traffic%v", strings.Join(shape, ","), listFailPass, blocked != "", traffic))
	rep := func() map[string]any {
		return map[string]any{"case": hid, "seed": seed, "pods": pods, "list_fail_pass": listFailPass, "blocked": blocked, "traffic": traffic}
	}
	var prev snap
	for pn := 1; pn <= 5; pn++ {
		hmu.Lock()
		pass = pn
		hmu.Unlock()
		var tw sync.WaitGroup
		if traffic {
			// concurrent requests for running pods while GC runs
			for _, p := range pods {
				if p.Kind != "running" {
					continue
				}
				tw.Add(1)
				go func(p *c09Pod) {
					defer tw.Done()
					ctx, cancel := context.WithTimeout(context.Background(), 2*time.Second)
					defer cancel()
					res := d.rpcAdd(ctx, p.I, "c0")
					if res.Err == nil && (addrStr(res.V4) != p.V4 || addrStr(res.V6) != p.V6) {
						r.Violate("C09.touched-existing-pod", "repeat-add-during-gc", fmt.Sprintf("case %d: running pod p%d got %s/%s on a repeated ADD during GC, it holds %s/%s", hid, p.I, addrStr(res.V4), addrStr(res.V6), p.V4, p.V6), rep())
					}
					_ = d.rpcGet(ctx, p.I, "c0")
				}(p)
			}
		}
		// a pod that vanished is re-created under the same name and its ADD arrives while GC is running
		if pn == 1 {
			for _, p := range pods {
				if p.Kind != "readd-during-gc" {
					continue
				}
				tw.Add(1)
				delay := time.Duration(rng.Intn(4000)) * time.Microsecond
				body := func(p *c09Pod) {
					defer tw.Done()
					time.Sleep(delay)
					d.ensurePod(p.I, true)
					ctx, cancel := context.WithTimeout(context.Background(), 3*time.Second)
					defer cancel()
					res := d.rpcAdd(ctx, p.I, "c1")
					hmu.Lock()
					defer hmu.Unlock()
					if res.Err == nil {
						p.Kind = "readded"
						p.V4, p.V6 = addrStr(res.V4), addrStr(res.V6)
						r.Count("readd_during_gc_acked", 1)
					} else if !res.Processing {
						p.Kind = "readd-failed"
					}
				}
				if rng.Intn(2) == 0 {
					go body(p)
				} else {
					// fired by the collector's own lookup of this pod
					delay = 0
					pp := p
					hmu.Lock()
					readdTrigger[fmt.Sprintf("p%d", p.I)] = func() { body(pp) }
					readdNames[fmt.Sprintf("p%d", p.I)] = true
					firstLookup[fmt.Sprintf("p%d", p.I)] = rng.Intn(3) == 0
					slowGets = true
					hmu.Unlock()
					r.Count("readd_triggered_by_gc_lookup_armed", 1)
				}
			}
		}
		// one pass may run while the process is out of file descriptors: every netlink call of the rule clean-up
		// fails (a transient fault at an existing suspension point); the pods it could not clean are retried
		var hog []*os.File
		var oldLim syscall.Rlimit
		starved := pn == starvedPass
		if starved {
			if err := syscall.Getrlimit(syscall.RLIMIT_NOFILE, &oldLim); err == nil {
				_ = syscall.Setrlimit(syscall.RLIMIT_NOFILE, &syscall.Rlimit{Cur: 512, Max: oldLim.Max})
				for {
					f, err := os.Open("/dev/null")
					if err != nil {
						break
					}
					hog = append(hog, f)
				}
				r.Count("gc_passes_without_file_descriptors", 1)
			} else {
				starved = false
			}
		}
		gerr := d.svc.VerifGCPods(context.Background())
		if starved {
			for _, f := range hog {
				_ = f.Close()
			}
			_ = syscall.Setrlimit(syscall.RLIMIT_NOFILE, &oldLim)
		}
		hmu.Lock()
		for k, f := range readdTrigger { // a trigger the pass never reached (pass stopped early)
			delete(readdTrigger, k)
			go f()
		}
		slowGets = false
		hmu.Unlock()
		tw.Wait()
		r.Count("gc_passes", 1)
		listFailed := (pn == listFailPass && listFailPass > 0) || starved
		if gerr == nil && !listFailed {
			okPasses++
		} else if !listFailed {
			okPasses++ // a pass that ran but stopped early still counts as a pass for the "within two passes" bound
			r.Count("gc_pass_returned_error", 1)
		}
		cur := take()
		for _, p := range pods {
			key := fmt.Sprintf("ns/p%d", p.I)
			_, hasRec := cur.recs[key]
			owned := (p.V4 == "" || cur.owners[p.V4] == key) && (p.V6 == "" || cur.owners[p.V6] == key)
			anyOwned := (p.V4 != "" && cur.owners[p.V4] == key) || (p.V6 != "" && cur.owners[p.V6] == key)
			if p.Kind == "readd-during-gc" || p.Kind == "readd-failed" {
				continue
			}
			if !p.mustGo() {
				// existing (running, exited, recreated) pods and pods whose lookup fails are never touched
				if !hasRec || !owned {
					site := p.Kind
					r.Violate("C09.touched-existing-pod", site, fmt.Sprintf("case %d pass %d: pod p%d (%s) must not be collected but record=%v addresses-owned=%v", hid, pn, p.I, p.Kind, hasRec, owned), rep())
				}
				continue
			}
			need := 2
			if strings.HasPrefix(p.Kind, "sticky") {
				need = 3
			}
			if key == blocked {
				continue // its own cleanup cannot proceed; it must only not block the others
			}
			if okPasses >= need && (hasRec || anyOwned) {
				site := fmt.Sprintf("%s/detached=%v", p.Kind, p.Detached)
				if blocked != "" {
					site += "/other-record-blocked"
				}
				r.Violate("C09.absent-pod-not-collected", site, fmt.Sprintf("case %d: after %d passes pod p%d (%s, ENI attached in kernel=%v) still has record=%v / owns its address=%v (gc error of last pass: %v)", hid, okPasses, p.I, p.Kind, !p.Detached, hasRec, anyOwned, gerr), rep())
			}
			if !hasRec && !anyOwned && p.Rules {
				rules, _ := netlink.RuleList(netlink.FAMILY_V4)
				for _, ru := range rules {
					if (ru.Src != nil && ru.Src.IP.String() == p.V4) || (ru.Dst != nil && ru.Dst.IP.String() == p.V4) {
						r.Violate("C09.rules-left-behind", "attached-eni", fmt.Sprintf("case %d: pod p%d was collected but its policy rule is still in the kernel: %v", hid, p.I, ru), rep())
					}
				}
			}
		}
		// idempotence: once two consecutive successful passes are behind us nothing may change any more
		if pn == 5 && prev.recs != nil {
			if fmt.Sprint(sortedKeys(prev.recs)) != fmt.Sprint(sortedKeys(cur.recs)) || fmt.Sprint(prev.owners) != fmt.Sprint(cur.owners) {
				r.Violate("C09.not-idempotent", "pass5", fmt.Sprintf("case %d: pass 5 still changed records/ownership: %v -> %v", hid, sortedKeys(prev.recs), sortedKeys(cur.recs)), rep())
			}
		}
		prev = cur
	}
	_ = before
	// remove planted rules of pods that legitimately keep them
	for _, p := range pods {
		if p.Rules {
			_, ipn, _ := net.ParseCIDR(p.V4 + "/32")
			r1 := netlink.NewRule()
			r1.Priority, r1.Src, r1.Table = 2048, ipn, 1001
			_ = netlink.RuleDel(r1)
			r2 := netlink.NewRule()
			r2.Priority, r2.Dst, r2.Table = 512, ipn, 254
			_ = netlink.RuleDel(r2)
		}
	}
	r.Eval(1)
	for _, p := range pods {
		r.Count("pod_kind:"+p.Kind, 1)
		if p.Detached {
			r.Count("records_on_detached_eni", 1)
		}
	}
	if hid%100000 < 2 {
		r.Sample(rep())
	}
}

func sortedKeys(m map[string]tdaemon.PodResources) []string {
	var k []string
	for x := range m {
		k = append(k, x)
	}
	sort.Strings(k)
	return k
}

var _ = schema.GroupResource{}
