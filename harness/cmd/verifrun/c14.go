package main

// C14 — address classifiers, derived gateways and interface names are exact.
// Differential oracle: every terway result is compared with an independent evaluator
// built on net/netip and math/big; u32 keys are interpreted the way the kernel's cls_u32
// does ((be32(hdr[off:off+4]) ^ val) & mask == 0 for every key).

import (
	"encoding/binary"
	"fmt"
	"math/big"
	"math/rand"
	"net"
	"net/netip"
	"strings"

	"github.com/vishvananda/netlink"

	terwayip "github.com/AliyunContainerService/terway/pkg/ip"
	"github.com/AliyunContainerService/terway/pkg/link"
	"github.com/AliyunContainerService/terway/pkg/tc"
	"github.com/AliyunContainerService/terway/plugin/datapath"
	"github.com/AliyunContainerService/terway/plugin/driver/nic"
	dtypes "github.com/AliyunContainerService/terway/plugin/driver/types"
	"github.com/AliyunContainerService/terway/plugin/driver/utils"
	ttypes "github.com/AliyunContainerService/terway/types"

	"verifharness/monitor"
)

func init() { register("C14", &checkDef{level: "exploration", fn: runC14}) }

func u32Match(keys []netlink.TcU32Key, hdr []byte) bool {
	for _, k := range keys {
		if int(k.Off)+4 > len(hdr) || k.Off < 0 {
			return false
		}
		d := binary.BigEndian.Uint32(hdr[k.Off : k.Off+4])
		if (d^k.Val)&k.Mask != 0 {
			return false
		}
	}
	return true
}

func v4hdr(src, dst netip.Addr) []byte {
	h := make([]byte, 20)
	h[0] = 0x45
	s, d := src.As4(), dst.As4()
	copy(h[12:16], s[:])
	copy(h[16:20], d[:])
	return h
}

func v6hdr(src, dst netip.Addr) []byte {
	h := make([]byte, 40)
	h[0] = 0x60
	s, d := src.As16(), dst.As16()
	copy(h[8:24], s[:])
	copy(h[24:40], d[:])
	return h
}

func randAddr(rng *rand.Rand, v6 bool) netip.Addr {
	if v6 {
		var b [16]byte
		rng.Read(b[:])
		return netip.AddrFrom16(b)
	}
	var b [4]byte
	rng.Read(b[:])
	return netip.AddrFrom4(b)
}

func addrToBig(a netip.Addr) *big.Int {
	b := a.AsSlice()
	return new(big.Int).SetBytes(b)
}

func bigToAddr(v *big.Int, v6 bool) (netip.Addr, bool) {
	n := 4
	if v6 {
		n = 16
	}
	if v.Sign() < 0 || v.BitLen() > n*8 {
		return netip.Addr{}, false
	}
	buf := make([]byte, n)
	v.FillBytes(buf)
	a, _ := netip.AddrFromSlice(buf)
	return a, true
}

func prefixRange(p netip.Prefix) (first, last *big.Int) {
	p = p.Masked()
	bits := p.Addr().BitLen()
	first = addrToBig(p.Addr())
	span := new(big.Int).Lsh(big.NewInt(1), uint(bits-p.Bits()))
	last = new(big.Int).Add(first, span)
	last.Sub(last, big.NewInt(1))
	return
}

// probes returns addresses around and inside prefix p.
func probes(rng *rand.Rand, p netip.Prefix, base netip.Addr) []netip.Addr {
	v6 := base.Is6()
	first, last := prefixRange(p)
	var out []netip.Addr
	add := func(v *big.Int) {
		if a, ok := bigToAddr(v, v6); ok {
			out = append(out, a)
		}
	}
	add(first)
	add(last)
	add(new(big.Int).Sub(first, big.NewInt(1)))
	add(new(big.Int).Add(last, big.NewInt(1)))
	// every single-bit flip of the base
	bs := base.AsSlice()
	for i := 0; i < len(bs)*8; i++ {
		c := append([]byte(nil), bs...)
		c[i/8] ^= 1 << (7 - uint(i%8))
		a, _ := netip.AddrFromSlice(c)
		out = append(out, a)
	}
	span := new(big.Int).Sub(last, first)
	span.Add(span, big.NewInt(1))
	for i := 0; i < 16; i++ {
		off := new(big.Int).Rand(rng, span)
		add(off.Add(off, first))
	}
	for i := 0; i < 16; i++ {
		out = append(out, randAddr(rng, v6))
	}
	return out
}

func cornerBases(v6 bool) []netip.Addr {
	if !v6 {
		return []netip.Addr{
			netip.MustParseAddr("0.0.0.0"), netip.MustParseAddr("255.255.255.255"),
			netip.MustParseAddr("170.170.170.170"), netip.MustParseAddr("85.85.85.85"),
			netip.MustParseAddr("0.1.2.3"), netip.MustParseAddr("127.0.0.1"),
			netip.MustParseAddr("224.0.0.1"), netip.MustParseAddr("255.0.0.1"),
			netip.MustParseAddr("10.0.0.0"), netip.MustParseAddr("192.168.255.255"),
			netip.MustParseAddr("172.16.0.1"), netip.MustParseAddr("128.0.0.0"),
		}
	}
	return []netip.Addr{
		netip.MustParseAddr("::"), netip.MustParseAddr("ffff:ffff:ffff:ffff:ffff:ffff:ffff:ffff"),
		netip.MustParseAddr("aaaa:aaaa:aaaa:aaaa:aaaa:aaaa:aaaa:aaaa"), netip.MustParseAddr("5555:5555:5555:5555:5555:5555:5555:5555"),
		netip.MustParseAddr("::1"), netip.MustParseAddr("fe80::1"), netip.MustParseAddr("2408:4005:3af:9400::1"),
		netip.MustParseAddr("fd00::ffff:ffff:ffff:ffff"), netip.MustParseAddr("0:1::"), netip.MustParseAddr("8000::"),
		netip.MustParseAddr("2001:db8:0:0:8000::"), netip.MustParseAddr("::ffff:ffff"),
	}
}

var v4mapped = netip.MustParsePrefix("::ffff:0:0/96")

func runC14(c *ctxT) {
	r, thorough := c.R, c.Thorough
	rng := rand.New(rand.NewSource(r.Seed))
	nb4, nb6 := 52, 52
	nameN := 100000
	if thorough {
		nb4, nb6 = 1000, 1000
		nameN = 2000000
	}
	r.Rule = "for EVERY prefix length (0..32, 0..128) × base addresses (corner bases + PRNG) × probe addresses (first,last,first-1,last+1, every single-bit flip of base, 16 random inside, 16 random outside): u32 keys judged with kernel cls_u32 semantics vs netip.Prefix.Contains; gateways vs big-int (last-2); distinct = distinct (function, family, prefix length, in/out verdict) classes and gateway (family, prefix length, outcome) classes actually observed"
	var evals int64

	classify := func(fn string, v6 bool, bits int, want bool) {
		r.DistinctKey(fmt.Sprintf("%s/%v/%d/%v", fn, v6, bits, want))
	}
	sampled := 0
	for _, v6 := range []bool{false, true} {
		maxBits := 32
		nb := nb4
		if v6 {
			maxBits = 128
			nb = nb6
		}
		bases := cornerBases(v6)
		for len(bases) < nb {
			bases = append(bases, randAddr(rng, v6))
		}
		for bits := 0; bits <= maxBits; bits++ {
			for _, base := range bases {
				pfx := netip.PrefixFrom(base, bits)
				// terway input is what net.ParseCIDR produces (the only producer in terway)
				_, ipn, err := net.ParseCIDR(pfx.String())
				if err != nil {
					r.Inconclusive("harness: ParseCIDR " + pfx.String())
					continue
				}
				// also feed the un-masked form (IP with host bits set, 4- or 16-byte) as callers build with netlink.NewIPNet / SetIPNet
				unmasked := &net.IPNet{IP: net.IP(base.AsSlice()), Mask: ipn.Mask}
				inputs := []*net.IPNet{ipn, unmasked}
				if !v6 {
					inputs = append(inputs, &net.IPNet{IP: net.IP(base.AsSlice()).To16(), Mask: ipn.Mask})
				}
				pr := probes(rng, pfx, base)
				other := randAddr(rng, v6)
				for ii, in := range inputs {
					var srcKeys []netlink.TcU32Key
					var srcKeys2 []netlink.TcU32Key
					var dstKeys []netlink.TcU32Key
					func() {
						defer func() {
							if e := recover(); e != nil {
								r.Violate("C14.panic", "u32-keys", fmt.Sprintf("panic building keys for %v (input form %d): %v", pfx, ii, e), map[string]any{"cidr": pfx.String(), "form": ii})
							}
						}()
						srcKeys = tc.U32MatchSrc(in)
						if v6 {
							srcKeys2 = tc.U32IPv6Src(in)
						} else {
							srcKeys2 = []netlink.TcU32Key{tc.U32IPv4Src(in)}
							off, val, mask, err := datapath.VerifDstIPRule(in)
							if err != nil {
								r.Violate("C14.dst-rule-error", "ipv4", fmt.Sprintf("dstIPRule rejects IPv4 cidr %v: %v", pfx, err), map[string]any{"cidr": pfx.String()})
							} else {
								dstKeys = []netlink.TcU32Key{{Off: off, Val: val, Mask: mask}}
							}
						}
					}()
					if srcKeys == nil && srcKeys2 == nil && !(v6 && bits == 0) {
						continue
					}
					for _, a := range pr {
						want := pfx.Contains(a)
						var hs, hd []byte
						if v6 {
							hs = v6hdr(a, other)
						} else {
							hs = v4hdr(a, other)
							hd = v4hdr(other, a)
						}
						evals++
						if got := u32Match(srcKeys, hs); got != want {
							r.Violate("C14.u32-src-mismatch", fmt.Sprintf("U32MatchSrc/v6=%v", v6), fmt.Sprintf("cidr %v (form %d) addr %v: keys %+v match=%v want=%v", pfx, ii, a, srcKeys, got, want), map[string]any{"cidr": pfx.String(), "addr": a.String(), "form": ii})
						}
						if got := u32Match(srcKeys2, hs); got != want {
							r.Violate("C14.u32-src-mismatch", fmt.Sprintf("U32IPvXSrc/v6=%v", v6), fmt.Sprintf("cidr %v (form %d) addr %v: keys %+v match=%v want=%v", pfx, ii, a, srcKeys2, got, want), map[string]any{"cidr": pfx.String(), "addr": a.String(), "form": ii})
						}
						classify("src", v6, bits, want)
						if !v6 && dstKeys != nil {
							evals++
							if got := u32Match(dstKeys, hd); got != want {
								r.Violate("C14.u32-dst-mismatch", "dstIPRule", fmt.Sprintf("cidr %v (form %d) addr %v: key %+v match=%v want=%v", pfx, ii, a, dstKeys, got, want), map[string]any{"cidr": pfx.String(), "addr": a.String(), "form": ii})
							}
							// a src classifier must not look at the destination field and vice versa
							if a != other {
								if u32Match(dstKeys, hs) != pfx.Contains(other) {
									r.Violate("C14.u32-dst-mismatch", "dstIPRule-field", fmt.Sprintf("cidr %v: dst key judged the wrong header field", pfx), map[string]any{"cidr": pfx.String(), "addr": a.String()})
								}
							}
							classify("dst", v6, bits, want)
						}
					}
				}
				if sampled < 3 && bits%13 == 5 {
					sampled++
					r.Sample(map[string]any{"cidr": pfx.String(), "src_keys": fmt.Sprintf("%+v", tc.U32MatchSrc(ipn)), "probes": len(pr)})
				}

				// gateway / GetIPAtIndex
				masked := pfx.Masked()
				if v6 && masked.Overlaps(v4mapped) {
					// net.IP cannot represent an IPv6 address inside ::ffff:0:0/96 as IPv6 (To4() and
					// IPNet.Contains treat it as IPv4): such subnets are outside the domain terway's
					// types can express, so no verdict is taken on them.
					r.Count("skipped_v4mapped_v6_subnets", 1)
					continue
				}
				first, last := prefixRange(masked)
				for idx := int64(-4); idx <= 4; idx++ {
					var wantV *big.Int
					if idx >= 0 {
						wantV = new(big.Int).Add(first, big.NewInt(idx))
					} else {
						wantV = new(big.Int).Add(last, big.NewInt(idx+1))
					}
					wantA, ok := bigToAddr(wantV, v6)
					wantStr := ""
					if ok && masked.Contains(wantA) {
						wantStr = wantA.String()
					}
					var got net.IP
					func() {
						defer func() {
							if e := recover(); e != nil {
								r.Violate("C14.panic", "GetIPAtIndex", fmt.Sprintf("panic %v for %v idx %d", e, pfx, idx), map[string]any{"cidr": pfx.String(), "index": idx})
							}
						}()
						got = terwayip.GetIPAtIndex(*ipn, idx)
					}()
					gotStr := ""
					if got != nil {
						if ga, ok := netip.AddrFromSlice(got); ok {
							gotStr = ga.Unmap().String()
							if v6 {
								gotStr = ga.String()
							}
						} else {
							gotStr = "invalid:" + got.String()
						}
					}
					evals++
					if gotStr != wantStr {
						lead := "nonzero-lead"
						if masked.Addr().AsSlice()[0] == 0 {
							lead = "zero-lead"
						}
						r.Violate("C14.ip-at-index", fmt.Sprintf("v6=%v/%s", v6, lead), fmt.Sprintf("GetIPAtIndex(%v,%d)=%q want %q", masked, idx, gotStr, wantStr), map[string]any{"cidr": masked.String(), "index": idx})
					}
				}
				// DeriveGatewayIP on the textual CIDR (host bits possibly set)
				wantGW := ""
				{
					wantV := new(big.Int).Sub(last, big.NewInt(2))
					if a, ok := bigToAddr(wantV, v6); ok && masked.Contains(a) {
						wantGW = a.String()
					}
				}
				for _, text := range []string{pfx.String(), masked.String()} {
					gotGW := terwayip.DeriveGatewayIP(text)
					evals++
					outcome := "gw"
					if wantGW == "" {
						outcome = "empty"
					}
					r.DistinctKey(fmt.Sprintf("gw/%v/%d/%s", v6, bits, outcome))
					if gotGW != wantGW {
						lead := "nonzero-lead"
						if masked.Addr().AsSlice()[0] == 0 {
							lead = "zero-lead"
						}
						r.Violate("C14.gateway", fmt.Sprintf("v6=%v/%s", v6, lead), fmt.Sprintf("DeriveGatewayIP(%q)=%q want %q", text, gotGW, wantGW), map[string]any{"cidr": text})
					}
				}
			}
		}
	}
	// malformed textual subnets never panic and give ""
	for _, s := range []string{"", "10.0.0.0", "10.0.0.0/33", "::/129", "a/b", "10.0.0.0/-1", "1.2.3.4/24/5", " 10.0.0.0/24"} {
		func() {
			defer func() {
				if e := recover(); e != nil {
					r.Violate("C14.panic", "DeriveGatewayIP", fmt.Sprintf("panic on %q: %v", s, e), map[string]any{"cidr": s})
				}
			}()
			if g := terwayip.DeriveGatewayIP(s); g != "" {
				r.Violate("C14.gateway", "malformed", fmt.Sprintf("DeriveGatewayIP(%q)=%q want empty", s, g), map[string]any{"cidr": s})
			}
		}()
		evals++
	}

	// route table ids: injective over all link indexes the kernel can hand out in practice
	seen := map[int]int{}
	for i := 1; i <= 65535; i++ {
		t := utils.GetRouteTableID(i)
		evals++
		if j, dup := seen[t]; dup {
			r.Violate("C14.table-id", "collision", fmt.Sprintf("link %d and %d share table %d", i, j, t), map[string]any{"a": i, "b": j})
		}
		seen[t] = i
		if t == 253 || t == 254 || t == 255 || t <= 0 {
			r.Violate("C14.table-id", "reserved", fmt.Sprintf("link %d maps to reserved table %d", i, t), map[string]any{"a": i})
		}
	}
	r.DistinctKey("tableid/injective-1..65535")

	// the table a datapath really programs for an interface: every generator, two interfaces of one pod on one
	// ENI (multi-network), IPv4 / IPv6 / dual: each interface uses exactly one table, its own
	c14TablesPerInterface(r, rng)

	// a classifier installed for one address is recognised (tc.Contain) for exactly that address: the question
	// EnsureVlanTag asks before it keeps, adds or deletes a filter
	for n := 0; n < 20000; n++ {
		v6 := rng.Intn(2) == 0
		a := randAddr(rng, v6)
		b := a
		switch rng.Intn(4) {
		case 0:
		case 1:
			b = randAddr(rng, v6)
		default:
			// differs from a in exactly one (late) byte: shares every earlier 32-bit word
			raw := a.AsSlice()
			raw[len(raw)-1-rng.Intn(len(raw)/2)] ^= byte(1 + rng.Intn(255))
			b, _ = netip.AddrFromSlice(raw)
		}
		bits := 32
		if v6 {
			bits = 128
		}
		ka := tc.U32MatchSrc(&net.IPNet{IP: a.AsSlice(), Mask: net.CIDRMask(bits, bits)})
		kb := tc.U32MatchSrc(&net.IPNet{IP: b.AsSlice(), Mask: net.CIDRMask(bits, bits)})
		got := tc.Contain(ka, kb)
		evals++
		if got != (a == b) {
			r.Violate("C14.classifier-recognition", fmt.Sprintf("v6=%v", v6), fmt.Sprintf("the classifier installed for %v is recognised as the one for %v: %v", a, b, got), map[string]any{"installed": a.String(), "asked": b.String()})
		}
	}
	r.DistinctKey("contain/host-classifiers")

	// host veth names
	alphabet := []string{"", "a", "eth0", "eth1", "net1", "e", "eth00", "é", "\x00", strings.Repeat("n", 253), "kube-system", "default", "pod-0", "a.b", "b"}
	randName := func() string {
		switch rng.Intn(4) {
		case 0:
			return alphabet[rng.Intn(len(alphabet))]
		case 1:
			n := rng.Intn(64)
			b := make([]byte, n)
			rng.Read(b)
			return string(b)
		default:
			n := 1 + rng.Intn(30)
			b := make([]byte, n)
			for i := range b {
				b[i] = "abcdefghijklmnopqrstuvwxyz0123456789-."[rng.Intn(38)]
			}
			return string(b)
		}
	}
	ifnames := []string{"", "eth0", "eth1", "net1", "net2", "e", "eth00", "ETH0", "eth0 "}
	for i := 0; i < nameN; i++ {
		ns, name := randName(), randName()
		names := map[string]string{}
		for _, ifn := range ifnames {
			v1, err1 := link.VethNameForPod(name, ns, ifn, "cali")
			v2, err2 := link.VethNameForPod(name, ns, ifn, "cali")
			evals++
			if err1 != nil || err2 != nil {
				r.Violate("C14.veth-name", "error", fmt.Sprintf("error for %q/%q/%q: %v", ns, name, ifn, err1), nil)
				continue
			}
			if v1 != v2 {
				r.Violate("C14.veth-name", "nondeterministic", fmt.Sprintf("%q vs %q for %q/%q/%q", v1, v2, ns, name, ifn), map[string]any{"ns": ns, "name": name, "if": ifn})
			}
			if len(v1) > 15 || len(v1) == 0 {
				r.Violate("C14.veth-name", "length", fmt.Sprintf("name %q has %d bytes for %q/%q/%q", v1, len(v1), ns, name, ifn), map[string]any{"ns": ns, "name": name, "if": ifn})
			}
			if !strings.HasPrefix(v1, "cali") {
				r.Violate("C14.veth-name", "prefix", fmt.Sprintf("name %q lacks prefix", v1), nil)
			}
			canon := ifn
			if canon == "" {
				canon = "eth0" // "" and eth0 are the same (primary) interface
			}
			if prev, ok := names[v1]; ok && prev != canon {
				r.Violate("C14.veth-name", "collision-within-pod", fmt.Sprintf("pod %q/%q: interfaces %q and %q share host name %q", ns, name, prev, canon, v1), map[string]any{"ns": ns, "name": name, "if1": prev, "if2": canon})
			}
			names[v1] = canon
		}
		if i < 2 {
			r.Sample(map[string]any{"ns": ns, "pod": name, "veth_names": fmt.Sprintf("%v", names)})
		}
		r.DistinctKey(fmt.Sprintf("veth/nslen%d", len(ns)/8))
	}
	r.Eval(evals)
	r.SetExtra("exhaustive", false)
	r.SetExtra("exhaustive_dimensions", "prefix length 0..32 and 0..128; link index 1..65535")
	r.Assumptions = []string{"CIDR values reach terway through net.ParseCIDR or as (IP, mask) pairs of equal family; hand-built IPNet with mismatched IP/mask length are out of scope", "u32 key semantics are the kernel's cls_u32: (be32(data+off) ^ val) & mask == 0"}
}

func c14TablesPerInterface(r *monitor.Result, rng *rand.Rand) {
	mac, _ := net.ParseMAC("02:00:00:00:00:01")
	for n := 0; n < 400; n++ {
		v4, v6 := true, true
		switch n % 3 {
		case 1:
			v6 = false
		case 2:
			v4 = false
		}
		eniIdx := 2 + rng.Intn(30)
		idxA := 40 + rng.Intn(100)
		idxB := idxA + 1 + rng.Intn(50)
		mk := func(ifn string, host int) *dtypes.SetupConfig {
			cfg := &dtypes.SetupConfig{HostVETHName: "cali0", ContainerIfName: ifn, ContainerIPNet: &ttypes.IPNetSet{}, GatewayIP: &ttypes.IPSet{}, ENIGatewayIP: &ttypes.IPSet{}, MTU: 1500, ENIIndex: eniIdx,
				DefaultRoute: ifn == "eth0", MultiNetwork: true, HostIPSet: &ttypes.IPNetSet{}, ServiceCIDR: &ttypes.IPNetSet{}}
			if v4 {
				cfg.ContainerIPNet.IPv4 = c13CIDR(fmt.Sprintf("10.9.0.%d/16", host))
				cfg.GatewayIP.IPv4 = net.ParseIP("10.9.255.253")
				cfg.HostIPSet.IPv4 = c13CIDR("10.9.0.2/16")
			}
			if v6 {
				cfg.ContainerIPNet.IPv6 = c13CIDR(fmt.Sprintf("fd00:9::%x/64", host))
				cfg.GatewayIP.IPv6 = net.ParseIP("fd00:9::fffd")
				cfg.HostIPSet.IPv6 = c13CIDR("fd00:9::2/64")
			}
			return cfg
		}
		la := &netlink.Device{LinkAttrs: netlink.LinkAttrs{Index: idxA, Name: "eth0", HardwareAddr: mac}}
		lb := &netlink.Device{LinkAttrs: netlink.LinkAttrs{Index: idxB, Name: "eth1", HardwareAddr: mac}}
		ca, cb := mk("eth0", 10), mk("eth1", 11)
		gens := map[string]func(cfg *dtypes.SetupConfig, l netlink.Link) *nic.Conf{
			"policy-route": func(cfg *dtypes.SetupConfig, l netlink.Link) *nic.Conf {
				return datapath.VerifGenerateContCfgForPolicy(cfg, l, mac)
			},
			"exclusive-eni": datapath.VerifGenerateContCfgForExclusiveENI,
			"ipvlan":        datapath.VerifGenerateContCfgForIPVlan,
			"vlan":          datapath.VerifGenerateContCfgForVlan,
		}
		for dp, gen := range gens {
			tables := func(conf *nic.Conf) map[int]bool {
				t := map[int]bool{}
				for _, ru := range conf.Rules {
					t[ru.Table] = true
				}
				for _, rt := range conf.Routes {
					if rt.Table != 0 && rt.Table != 254 {
						t[rt.Table] = true
					}
				}
				return t
			}
			ta, tb := tables(gen(ca, la)), tables(gen(cb, lb))
			r.Eval(1)
			if len(ta) != 1 || len(tb) != 1 {
				r.Violate("C14.table-id", dp+"/several-tables-for-one-interface", fmt.Sprintf("%s (v4=%v v6=%v): interface eth0 (index %d) uses tables %v, eth1 (index %d) uses %v; each must use exactly one", dp, v4, v6, idxA, ta, idxB, tb), map[string]any{"datapath": dp, "v4": v4, "v6": v6})
				continue
			}
			for t := range ta {
				if tb[t] {
					r.Violate("C14.table-id", dp+"/shared-between-interfaces", fmt.Sprintf("%s (v4=%v v6=%v): interfaces with index %d and %d of one pod both use table %d", dp, v4, v6, idxA, idxB, t), map[string]any{"datapath": dp})
				}
			}
		}
	}
	r.DistinctKey("tableid/generators")
}
