package main

// Shared harness of the node-pool family (C01, C06, C07): real eni.Manager + eni.Local(+Trunk)
// over the simulated cloud's factory facade, driven by "kubelet" goroutines, a balancer /
// sync / drift background, cancellation and a cloud fault plan. The monitor (poolMon) is an
// interval ledger + call-time guard fed at the client boundary and at the cloud boundary.

import (
	"context"
	"fmt"
	"math/rand"
	"net/netip"
	"sort"
	"strings"
	"sync"
	"sync/atomic"
	"time"

	"golang.org/x/time/rate"

	"github.com/AliyunContainerService/terway/pkg/eni"
	"github.com/AliyunContainerService/terway/types"
	tdaemon "github.com/AliyunContainerService/terway/types/daemon"

	"verifharness/cloudsim"
	"verifharness/monitor"
)

type poolCfg struct {
	V4, V6     bool
	Slots      int   // MaxENI
	Pre        []int // addresses on pre-attached ENIs (len <= Slots)
	PreV6      []int
	Trunk      bool // first pre-attached ENI is the trunk
	StrayTrunk bool // the last pre-attached ENI is a trunk-type interface the daemon does not run as its trunk (plain slot)
	StrayERDMA bool // ... or an RDMA interface on a node whose configuration has RDMA switched off (plain slot)
	ERDMA      bool // one extra slot of type erdma (pre-attached)
	Cap, Batch int
	MinIdle    int
	MaxIdle    int
	Policy     string
	Pods       int
	Clients    int
	OpsPerCli  int
	Faults     map[int]cloudsim.Fault
	LatencyUS  int  // max default latency of cloud calls
	Drift      bool // remote removals
	Balancer   bool // background VerifSyncPool
	Syncs      bool // background VerifSync
	CancelPct  int
	Script     []poolOp // deterministic script (C07 enumeration); nil => random clients
	FaultFree  bool
	KernelMAC  bool // the first interface carries the MAC of the only kernel device of a fresh netns (lo)
	SpinBal    bool // a goroutine runs balancer rounds back to back (hits the dispose / pending-request windows)
}

type poolOp struct {
	Pod    int
	Kind   string // add | del
	Cancel int    // ms, 0 = none, -1 = pre-cancelled
}

type hold struct {
	Pod          string
	ENI          string
	Since        int64
	FailedRepeat bool // a repeated ADD for this pod failed/cancelled after the hold began
}

type podState struct {
	V4, V6 netip.Addr
	ENI    string
	MAC    string
	Held   bool
	ERDMA  bool
}

type poolMon struct {
	noGoneClause bool // C04 with drift: a DEL whose outcome is unknown un-holds at call time, the pod may legitimately get its own (invalidated) address back; C01 judges this clause
	mu           sync.Mutex
	clock        atomic.Int64
	r            *monitor.Result
	prop         string
	hid          int
	cfg          poolCfg
	holds        map[netip.Addr]*hold
	pods         map[string]*podState
	infl         map[string]int64 // pod -> allocate call time
	unasg        map[netip.Addr]int64
	delInv       map[string]int64
	delInf       map[string]map[string]bool
	gone         map[netip.Addr]int64
	events       []string
	win          map[string]int64
	issued       map[netip.Addr]string
	loadIn       map[string]int // eni -> Load calls in flight
	create       int            // creates in flight
	asgIn        map[string]int // eni/family -> addresses being assigned
	primary      map[netip.Addr]bool
	special      map[string]string // eni -> trunk|erdma
	stopped      bool
}

func newPoolMon(r *monitor.Result, prop string, hid int, cfg poolCfg) *poolMon {
	return &poolMon{r: r, prop: prop, hid: hid, cfg: cfg, holds: map[netip.Addr]*hold{}, pods: map[string]*podState{}, infl: map[string]int64{}, unasg: map[netip.Addr]int64{},
		delInv: map[string]int64{}, delInf: map[string]map[string]bool{}, gone: map[netip.Addr]int64{}, win: map[string]int64{}, issued: map[netip.Addr]string{}, loadIn: map[string]int{},
		asgIn: map[string]int{}, primary: map[netip.Addr]bool{}, special: map[string]string{}}
}

func (m *poolMon) now() int64 { return m.clock.Add(1) }

func (m *poolMon) ev(format string, a ...any) {
	if len(m.events) < 4000 {
		m.events = append(m.events, fmt.Sprintf("%d ", m.clock.Load())+fmt.Sprintf(format, a...))
	}
}

func (m *poolMon) replay() map[string]any {
	ev := m.events
	if len(ev) > 400 {
		ev = ev[len(ev)-400:]
	}
	return map[string]any{"history": m.hid, "config": m.cfg, "last_events": append([]string(nil), ev...)}
}

func (m *poolMon) violate(prop, class, site, detail string) {
	if m.prop == "C04" && prop == "C01" {
		// the daemon-level run decides the ledger clauses over RPC replies as its own
		prop, class = "C04", "C04.ledger-"+strings.TrimPrefix(class, "C01.")
	}
	if prop != m.prop && !(m.prop == "ALL") {
		// violations of sibling properties observed by this run are counted, not decided here
		m.r.Count("sibling:"+class, 1)
		return
	}
	m.r.Violate(class, site, fmt.Sprintf("history %d: %s", m.hid, detail), m.replay())
}

// ---- cloud listener (cloud lock held) ----

func (m *poolMon) OnInvoke(c *cloudsim.Cloud, call *cloudsim.Call) {
	m.mu.Lock()
	defer m.mu.Unlock()
	t := call.TCall
	m.ev("cloud> %s eni=%s n=%d/%d ips=%v fault=%s", call.API, call.ENI, call.N4, call.N6, call.IPs, call.Fault)
	switch call.API {
	case "Create":
		attached := c.AttachedLocked()
		if call.N4 > m.cfg.Cap || call.N6 > m.cfg.Cap {
			m.violate("C06", "C06.create-over-cap", "create", fmt.Sprintf("CreateNetworkInterface asks %d IPv4 / %d IPv6, per-ENI limit %d", call.N4, call.N6, m.cfg.Cap))
		}
		slots := m.cfg.Slots
		if m.cfg.ERDMA {
			slots++
		}
		if attached+m.create >= slots {
			m.violate("C06", "C06.create-over-quota", "create", fmt.Sprintf("CreateNetworkInterface while %d attached + %d being created, quota %d", attached, m.create, slots))
		}
		m.create++
		m.r.Max(m.prop+"_eni_used_permille", int64(1000*(attached+m.create)/max(slots, 1)))
	case "AssignV4", "AssignV6":
		v6 := call.API == "AssignV6"
		n := call.N4 + call.N6
		key := call.ENI + "/" + call.API
		cur := c.CountLocked(call.ENI, v6)
		if cur+n+m.asgIn[key] > m.cfg.Cap {
			m.violate("C06", "C06.assign-over-cap", call.API, fmt.Sprintf("%s asks %d on %s which has %d (+%d being assigned), per-ENI limit %d", call.API, n, call.ENI, cur, m.asgIn[key], m.cfg.Cap))
		}
		m.asgIn[key] += n
		m.r.Max(m.prop+"_ip_used_permille", int64(1000*(cur+m.asgIn[key])/max(m.cfg.Cap, 1)))
	case "UnAssignV4", "UnAssignV6":
		for _, a := range call.IPs {
			if h := m.holds[a]; h != nil {
				m.violate("C06", "C06.unassign-held", call.API, fmt.Sprintf("%s of %s while pod %s holds it (since %d)", call.API, a, h.Pod, h.Since))
			}
			if m.primary[a] {
				m.violate("C06", "C06.unassign-primary", call.API, fmt.Sprintf("%s of primary address %s of %s", call.API, a, call.ENI))
			}
			if _, ok := m.unasg[a]; !ok {
				m.unasg[a] = t
			}
		}
		m.win["unassign_calls"]++
	case "Delete":
		for a, h := range m.holds {
			if h.ENI == call.ENI {
				m.violate("C06", "C06.delete-inuse", "delete", fmt.Sprintf("DeleteNetworkInterface(%s) while pod %s holds %s", call.ENI, h.Pod, a))
			}
		}
		if s := m.special[call.ENI]; s != "" {
			m.violate("C06", "C06.delete-special", s, fmt.Sprintf("DeleteNetworkInterface(%s) on the %s interface", call.ENI, s))
		}
		if _, ok := m.delInv[call.ENI]; !ok {
			m.delInv[call.ENI] = t
			inf := map[string]bool{}
			for p := range m.infl {
				inf[p] = true
			}
			m.delInf[call.ENI] = inf
			if len(inf) > 0 {
				m.win["delete_while_allocate_in_flight"]++
			}
		}
		m.win["delete_calls"]++
	case "Load":
		m.loadIn[call.ENI]++
	}
}

func (m *poolMon) OnReturn(c *cloudsim.Cloud, call *cloudsim.Call) {
	m.mu.Lock()
	defer m.mu.Unlock()
	m.ev("cloud< %s eni=%s res=%v err=%q", call.API, call.ENI, call.Result, call.Err)
	switch call.API {
	case "Create":
		m.create--
		if e := c.ENILocked(call.ENI); e != nil {
			m.primary[e.Primary] = true
			for a := range e.V4 {
				m.issued[a] = e.ID
			}
			for a := range e.V6 {
				m.issued[a] = e.ID
			}
			if e.Type == "trunk" || e.Type == "erdma" {
				m.special[e.ID] = e.Type
			}
		}
	case "AssignV4", "AssignV6":
		m.asgIn[call.ENI+"/"+call.API] -= call.N4 + call.N6
		for _, a := range call.Result {
			m.issued[a] = call.ENI
		}
	case "Load":
		if call.Err == "" && call.ENI != "" {
			if m.loadIn[call.ENI] > 0 {
				m.loadIn[call.ENI]--
			}
			have := map[netip.Addr]bool{}
			for _, a := range call.Result {
				have[a] = true
			}
			for a, e := range m.issued {
				if e == call.ENI && !have[a] {
					if _, ok := m.gone[a]; !ok {
						m.gone[a] = call.TRet
						m.win["sync_saw_removed_address"]++
					}
				}
			}
		}
	}
}

// ---- client boundary ----

func (m *poolMon) allocInvoke(pod string) int64 {
	m.mu.Lock()
	defer m.mu.Unlock()
	t := m.now()
	m.infl[pod] = t
	m.ev("call ADD %s", pod)
	for _, n := range m.loadIn {
		if n > 0 {
			m.win["allocate_invoked_during_sync"]++
			break
		}
	}
	return t
}

// ack: Allocate returned ok. cloudHas: does the cloud currently list each address (snapshot taken just before).
func (m *poolMon) ack(pod string, tCall int64, res *eni.LocalIPResource, cloudHas map[netip.Addr]bool) {
	m.mu.Lock()
	defer m.mu.Unlock()
	t := m.now()
	delete(m.infl, pod)
	ps := m.pods[pod]
	if ps == nil {
		ps = &podState{}
		m.pods[pod] = ps
	}
	var addrs []netip.Addr
	if res.IP.IPv4.IsValid() {
		addrs = append(addrs, res.IP.IPv4)
	}
	if res.IP.IPv6.IsValid() {
		addrs = append(addrs, res.IP.IPv6)
	}
	m.ev("ack ADD %s -> %v eni=%s", pod, addrs, res.ENI.ID)
	if m.cfg.V4 != res.IP.IPv4.IsValid() || m.cfg.V6 != res.IP.IPv6.IsValid() {
		m.violate("C01", "C01.d-family", "family", fmt.Sprintf("pod %s got %v but stack is v4=%v v6=%v", pod, addrs, m.cfg.V4, m.cfg.V6))
	}
	if ps.Held {
		// repeated ADD: must be the very same allocation
		m.win["repeat_add_acks"]++
		if ps.V4 != res.IP.IPv4 || ps.V6 != res.IP.IPv6 || ps.ENI != res.ENI.ID {
			m.violate("C01", "C01.c-repeat-differs", "repeat-add", fmt.Sprintf("pod %s holds %v/%v on %s, repeated ADD returned %v on %s", pod, ps.V4, ps.V6, ps.ENI, addrs, res.ENI.ID))
			// fallthrough: treat the new addresses as additional holds so that overlaps are still seen
		} else {
			return
		}
	}
	for _, a := range addrs {
		if h := m.holds[a]; h != nil && h.Pod != pod {
			site := "plain"
			if h.FailedRepeat {
				site = "after-failed-repeat-add"
			}
			m.violate("C01", "C01.a-overlap", site, fmt.Sprintf("address %s handed to pod %s while pod %s still holds it (since %d, failedRepeat=%v)", a, pod, h.Pod, h.Since, h.FailedRepeat))
		}
		// (b) provenance of a fresh hand-out, judged against what the daemon knew before this request was invoked
		e, ok := m.issued[a]
		if !ok || e != res.ENI.ID {
			m.violate("C01", "C01.b-never-issued", "issued", fmt.Sprintf("address %s handed to %s on %s was never issued by the cloud to that interface (issued to %q)", a, pod, res.ENI.ID, e))
		}
		if tu, ok := m.unasg[a]; ok && tu < tCall {
			m.violate("C01", "C01.b-handout-after-unassign", "unassign", fmt.Sprintf("address %s handed to %s although the daemon invoked UnAssign for it at %d (request invoked at %d)", a, pod, tu, tCall))
		}
		if tg, ok := m.gone[a]; ok && tg < tCall && !m.noGoneClause {
			m.violate("C01", "C01.b-handout-after-sync-removed", "sync", fmt.Sprintf("address %s handed to %s although a completed cloud sync (at %d) had seen it removed (request invoked at %d)", a, pod, tg, tCall))
		}
		if !cloudHas[a] {
			if _, seen := m.gone[a]; !seen {
				m.win["handout_of_remotely_removed_not_yet_synced"]++
			}
		}
		m.holds[a] = &hold{Pod: pod, ENI: res.ENI.ID, Since: t}
	}
	if td, ok := m.delInv[res.ENI.ID]; ok {
		if m.delInf[res.ENI.ID][pod] {
			m.violate("C06", "C06.delete-late-ack", "allocate-in-flight-at-delete", fmt.Sprintf("DeleteNetworkInterface(%s) was invoked at %d while pod %s's request was pending; that request was then served %v from it", res.ENI.ID, td, pod, addrs))
			m.violate("C01", "C01.b-handout-on-deleting-eni", "allocate-in-flight-at-delete", fmt.Sprintf("pod %s received %v on %s whose deletion was invoked at %d", pod, addrs, res.ENI.ID, td))
		} else if td < tCall {
			m.violate("C01", "C01.b-handout-on-deleting-eni", "allocate-after-delete", fmt.Sprintf("pod %s received %v on %s whose deletion was invoked at %d (request invoked at %d)", pod, addrs, res.ENI.ID, td, tCall))
		}
	}
	ps.Held, ps.V4, ps.V6, ps.ENI, ps.MAC = true, res.IP.IPv4, res.IP.IPv6, res.ENI.ID, res.ENI.MAC
	m.win["fresh_acks"]++
}

func (m *poolMon) allocFailed(pod string, err error, cancelled bool) {
	m.mu.Lock()
	defer m.mu.Unlock()
	m.now()
	delete(m.infl, pod)
	m.ev("fail ADD %s: %v", pod, err)
	if ps := m.pods[pod]; ps != nil && ps.Held {
		// the pod keeps running with the allocation of its earlier successful ADD
		for _, a := range []netip.Addr{ps.V4, ps.V6} {
			if h := m.holds[a]; h != nil && h.Pod == pod {
				h.FailedRepeat = true
			}
		}
		m.win["failed_repeat_add_while_holding"]++
	}
	if cancelled {
		m.win["cancelled_adds"]++
	}
}

func (m *poolMon) releaseInvoke(pod string) *podState {
	m.mu.Lock()
	defer m.mu.Unlock()
	m.now()
	ps := m.pods[pod]
	if ps == nil || !ps.Held {
		return nil
	}
	cp := *ps
	for _, a := range []netip.Addr{ps.V4, ps.V6} {
		if h := m.holds[a]; h != nil && h.Pod == pod {
			delete(m.holds, a)
		}
	}
	ps.Held = false
	m.ev("call DEL %s %v/%v", pod, cp.V4, cp.V6)
	if len(m.infl) > 0 {
		m.win["release_while_allocate_in_flight"]++
	}
	return &cp
}

func (m *poolMon) note(format string, a ...any) {
	m.mu.Lock()
	m.now()
	m.ev(format, a...)
	m.mu.Unlock()
}

func (m *poolMon) holdSnapshot() (map[netip.Addr]string, map[string]podState) {
	m.mu.Lock()
	defer m.mu.Unlock()
	h := map[netip.Addr]string{}
	for a, x := range m.holds {
		h[a] = x.Pod
	}
	p := map[string]podState{}
	for k, v := range m.pods {
		p[k] = *v
	}
	return h, p
}

// signature of the history: events canonicalised by renaming pods / addresses / enis in order of appearance
func (m *poolMon) signature() string {
	m.mu.Lock()
	defer m.mu.Unlock()
	ren := map[string]string{}
	var sb strings.Builder
	for _, e := range m.events {
		f := strings.Fields(e)
		if len(f) < 3 {
			continue
		}
		for _, tok := range f[1:] {
			if strings.HasPrefix(tok, "10.") || strings.HasPrefix(tok, "fd00") || strings.HasPrefix(tok, "eni") || strings.HasPrefix(tok, "ns/") || strings.Contains(tok, "=eni") {
				if _, ok := ren[tok]; !ok {
					ren[tok] = fmt.Sprintf("x%d", len(ren))
				}
				sb.WriteString(ren[tok])
			} else {
				sb.WriteString(tok)
			}
			sb.WriteByte(' ')
		}
		sb.WriteByte(';')
	}
	return fmt.Sprintf("%x", hashStr(sb.String()))
}

// ---- one history ----

type poolHist struct {
	cfg    poolCfg
	mon    *poolMon
	cloud  *cloudsim.Cloud
	mgr    *eni.Manager
	locals []*eni.Local
	ctx    context.Context
	cancel context.CancelFunc
	wg     sync.WaitGroup
	rng    *rand.Rand
}

var poolInit sync.Once

func newPoolHist(c *ctxT, prop string, hid int, cfg poolCfg, seed int64) *poolHist {
	poolInit.Do(func() { eni.VerifSetRateLimit(rate.Inf) })
	h := &poolHist{cfg: cfg, rng: rand.New(rand.NewSource(seed))}
	h.mon = newPoolMon(c.R, prop, hid, cfg)
	slots := cfg.Slots
	cloudSlots := slots
	if cfg.ERDMA {
		cloudSlots++
	}
	h.cloud = cloudsim.NewCloud(h.mon.now, cloudSlots, cfg.Cap, cfg.V4, cfg.V6)
	h.cloud.Rng = rand.New(rand.NewSource(seed ^ 0x5eed))
	if cfg.KernelMAC {
		// lo is the only *netlink.Device of a fresh netns and the netlink library reports its all-zero
		// hardware address as empty: an ENI with MAC "" resolves to a kernel device, any other MAC does not
		h.cloud.MACFor = func(n int) (string, bool) {
			if n == 1 {
				return "", true
			}
			return "", false
		}
	}
	if cfg.Faults != nil {
		h.cloud.Plan = cfg.Faults
	}
	if cfg.LatencyUS > 0 {
		lr := rand.New(rand.NewSource(seed ^ 0xde1a))
		var lmu sync.Mutex
		h.cloud.DefDelay = func() (time.Duration, time.Duration) {
			lmu.Lock()
			defer lmu.Unlock()
			return time.Duration(lr.Intn(cfg.LatencyUS)) * time.Microsecond, time.Duration(lr.Intn(cfg.LatencyUS)) * time.Microsecond
		}
	}
	pc := &tdaemon.PoolConfig{EnableIPv4: cfg.V4, EnableIPv6: cfg.V6, Capacity: slots * cfg.Cap, MaxENI: slots, MaxIPPerENI: cfg.Cap, BatchSize: cfg.Batch, MaxPoolSize: cfg.MaxIdle, MinPoolSize: cfg.MinIdle}
	var nis []eni.NetworkInterface
	for i, n4 := range cfg.Pre {
		n6 := 0
		if cfg.V6 && i < len(cfg.PreV6) {
			n6 = cfg.PreV6[i]
		}
		typ := "secondary"
		if i == 0 && cfg.Trunk {
			typ = "trunk"
		}
		ctyp := typ
		if cfg.StrayTrunk && typ == "secondary" && i == len(cfg.Pre)-1 {
			// trunking switched off (or another trunk selected) after the node got this one: builder.go wraps it
			// in a plain slot, only daemon.ENI.Trunk says what it is
			ctyp = "trunk"
		} else if cfg.StrayERDMA && !cfg.ERDMA && typ == "secondary" && i == len(cfg.Pre)-1 {
			ctyp = "erdma"
		}
		d := h.cloud.Preattach(ctyp, n4, n6)
		h.seedIssued(d.ID)
		lo := eni.NewLocal(d, typ, h.cloud, pc)
		h.locals = append(h.locals, lo)
		if ctyp != typ {
			h.mon.special[d.ID] = ctyp
		}
		if typ == "trunk" {
			h.mon.special[d.ID] = "trunk"
			nis = append(nis, eni.NewTrunk(nil, lo))
		} else {
			nis = append(nis, lo)
		}
	}
	for i := len(cfg.Pre); i < slots; i++ {
		lo := eni.NewLocal(nil, "secondary", h.cloud, pc)
		h.locals = append(h.locals, lo)
		nis = append(nis, lo)
	}
	if cfg.ERDMA {
		d := h.cloud.Preattach("erdma", 1+h.rng.Intn(cfg.Cap), 0)
		h.seedIssued(d.ID)
		h.mon.special[d.ID] = "erdma"
		lo := eni.NewLocal(d, "erdma", h.cloud, pc)
		h.locals = append(h.locals, lo)
		nis = append(nis, lo)
	}
	h.cloud.SetListener(h.mon)
	h.cloud.PreDelete = func(id string) {
		for _, lo := range h.locals {
			if lo.VerifENIID() != id {
				continue
			}
			a4, a6, d4, d6 := lo.VerifPending()
			if a4+a6+d4+d6 > 0 {
				site := "queued"
				if a4+a6 == 0 {
					site = "dangling"
				}
				h.mon.mu.Lock()
				h.mon.violate("C06", "C06.delete-pending", site, fmt.Sprintf("DeleteNetworkInterface(%s) invoked while the interface has live requests pending (allocating v4/v6 %d/%d, popped-but-unserved v4/v6 %d/%d)", id, a4, a6, d4, d6))
				h.mon.mu.Unlock()
			}
			h.mon.mu.Lock()
			h.mon.win["delete_pending_checks"]++
			h.mon.mu.Unlock()
		}
	}
	h.mgr = eni.NewManager(cfg.MinIdle, cfg.MaxIdle, slots*cfg.Cap, 0, nis, tdaemon.EniSelectionPolicy(cfg.Policy), nil)
	h.ctx, h.cancel = context.WithCancel(context.Background())
	if err := h.mgr.Run(h.ctx, &h.wg, nil); err != nil {
		c.R.Inconclusive(fmt.Sprintf("history %d: manager did not start: %v", hid, err))
	}
	return h
}

func (h *poolHist) seedIssued(eniID string) {
	s := h.cloud.Snapshot()
	e := s.ENIs[eniID]
	h.mon.mu.Lock()
	for _, a := range e.V4 {
		h.mon.issued[a] = eniID
	}
	for _, a := range e.V6 {
		h.mon.issued[a] = eniID
	}
	h.mon.primary[e.Primary] = true
	h.mon.mu.Unlock()
}

func (h *poolHist) podName(i int) string { return fmt.Sprintf("ns/p%d", i) }

func (h *poolHist) cloudHas() map[netip.Addr]bool {
	out := map[netip.Addr]bool{}
	for _, e := range h.cloud.Snapshot().ENIs {
		if e.Deleted {
			continue
		}
		for _, a := range e.V4 {
			out[a] = true
		}
		for _, a := range e.V6 {
			out[a] = true
		}
	}
	return out
}

// add runs one ADD the way daemon.AllocIP drives the manager.
func (h *poolHist) add(pod string, erdma bool, cancelMS int, maxWait time.Duration) {
	_, pods := h.mon.holdSnapshot()
	ps, held := pods[pod]
	req := eni.NewLocalIPRequest()
	if erdma {
		req.LocalIPType = eni.LocalIPTypeERDMA
	}
	if held && ps.Held {
		// daemon.setRequest: a pod with a stored record asks for its old interface
		req.IPv4, req.IPv6, req.NetworkInterfaceID = ps.V4, ps.V6, ps.ENI
	}
	ctx, cancel := context.WithTimeout(h.ctx, maxWait)
	defer cancel()
	cancelled := false
	switch {
	case cancelMS < 0:
		cancel()
		cancelled = true
	case cancelMS > 0:
		tm := time.AfterFunc(time.Duration(cancelMS)*time.Millisecond, cancel)
		defer tm.Stop()
		cancelled = true
	}
	cni := &tdaemon.CNI{PodName: strings.TrimPrefix(pod, "ns/"), PodNamespace: "ns", PodID: pod, PodUID: "uid-" + pod}
	tCall := h.mon.allocInvoke(pod)
	resp, err := h.mgr.Allocate(ctx, cni, &eni.AllocRequest{ResourceRequests: []eni.ResourceRequest{req}})
	if err == nil && len(resp) == 1 {
		if res, ok := resp[0].(*eni.LocalIPResource); ok {
			has := h.cloudHas()
			h.mon.ack(pod, tCall, res, has)
			return
		}
	}
	if err == nil {
		err = fmt.Errorf("no error but %d resources", len(resp))
	}
	h.mon.allocFailed(pod, err, cancelled || ctx.Err() != nil)
	// daemon.AllocIP rolls back whatever the manager returned, except what the pod's record already holds
	var rollback []eni.NetworkResource
	for _, x := range resp {
		if lr, ok := x.(*eni.LocalIPResource); ok && held && ps.Held && lr.ENI.ID == ps.ENI && lr.IP.IPv4 == ps.V4 && lr.IP.IPv6 == ps.V6 {
			continue
		}
		rollback = append(rollback, x)
	}
	_ = h.mgr.Release(context.Background(), cni, &eni.ReleaseRequest{NetworkResources: rollback})
}

func (h *poolHist) del(pod string) {
	ps := h.mon.releaseInvoke(pod)
	if ps == nil {
		// repeated / stale DEL: the daemon finds no record and releases nothing
		h.mon.note("call DEL %s (nothing held)", pod)
		return
	}
	cni := &tdaemon.CNI{PodName: strings.TrimPrefix(pod, "ns/"), PodNamespace: "ns", PodID: pod, PodUID: "uid-" + pod}
	res := &eni.LocalIPResource{ENI: tdaemon.ENI{ID: ps.ENI, MAC: ps.MAC}, IP: types.IPSet2{IPv4: ps.V4, IPv6: ps.V6}}
	_ = h.mgr.Release(context.Background(), cni, &eni.ReleaseRequest{NetworkResources: []eni.NetworkResource{res}})
}

// run drives the workload; returns when all clients are done.
func (h *poolHist) run() {
	cfg := h.cfg
	var podMu = make([]sync.Mutex, cfg.Pods)
	stopBg := make(chan struct{})
	var bg sync.WaitGroup
	bgSeed := h.rng.Int63()
	if cfg.Balancer || cfg.Syncs || cfg.Drift {
		bg.Add(1)
		go func() {
			defer bg.Done()
			br := rand.New(rand.NewSource(bgSeed))
			for {
				select {
				case <-stopBg:
					return
				case <-time.After(time.Duration(20+br.Intn(150)) * time.Millisecond):
				}
				switch k := br.Intn(10); {
				case k < 4 && cfg.Balancer:
					h.mon.note("bg balancer tick")
					bctx, bc := context.WithTimeout(h.ctx, 1500*time.Millisecond)
					h.mgr.VerifSyncPool(bctx)
					bc()
				case k < 7 && cfg.Syncs:
					lo := h.locals[br.Intn(len(h.locals))]
					h.mon.note("bg sync")
					lo.VerifSync()
				case cfg.Drift:
					// remove a random non-primary address behind the daemon's back (idle or in use)
					snap := h.cloud.Snapshot()
					var cands []netip.Addr
					for _, e := range snap.ENIs {
						if e.Deleted {
							continue
						}
						for _, a := range append(append([]netip.Addr{}, e.V4...), e.V6...) {
							if a != e.Primary {
								cands = append(cands, a)
							}
						}
					}
					if len(cands) > 0 && br.Intn(3) == 0 {
						sort.Slice(cands, func(i, j int) bool { return cands[i].Less(cands[j]) })
						a := cands[br.Intn(len(cands))]
						if h.cloud.RemoveAddress(a) {
							h.mon.note("drift remove %s", a)
							h.mon.mu.Lock()
							h.mon.win["remote_removals"]++
							h.mon.mu.Unlock()
						}
					}
				}
			}
		}()
	}
	if cfg.SpinBal {
		bg.Add(1)
		go func() {
			defer bg.Done()
			for {
				select {
				case <-stopBg:
					return
				default:
				}
				bctx, bc := context.WithTimeout(h.ctx, 400*time.Millisecond)
				h.mgr.VerifSyncPool(bctx)
				bc()
				time.Sleep(200 * time.Microsecond)
			}
		}()
	}
	if cfg.Script != nil {
		for _, op := range cfg.Script {
			pod := h.podName(op.Pod)
			if op.Kind == "add" {
				h.add(pod, false, op.Cancel, 2500*time.Millisecond)
			} else {
				h.del(pod)
			}
		}
	} else {
		var cw sync.WaitGroup
		for ci := 0; ci < cfg.Clients; ci++ {
			cw.Add(1)
			cs := h.rng.Int63()
			go func() {
				defer cw.Done()
				cr := rand.New(rand.NewSource(cs))
				for k := 0; k < cfg.OpsPerCli; k++ {
					pi := cr.Intn(cfg.Pods)
					if !podMu[pi].TryLock() {
						continue // the daemon answers "processing" to a concurrent request for the same pod
					}
					pod := h.podName(pi)
					erdma := cfg.ERDMA && pi%5 == 0
					_, pods := h.mon.holdSnapshot()
					held := pods[pod].Held
					x := cr.Intn(100)
					switch {
					case !held && x < 75, held && x < 25:
						cancelMS := 0
						if cr.Intn(100) < cfg.CancelPct {
							switch cr.Intn(4) {
							case 0:
								cancelMS = -1
							case 1:
								cancelMS = 1 + cr.Intn(2)
							case 2:
								cancelMS = 300 + cr.Intn(400)
							default:
								cancelMS = 5 + cr.Intn(100)
							}
						}
						h.add(pod, erdma, cancelMS, time.Duration(1200+cr.Intn(1500))*time.Millisecond)
					default:
						h.del(pod)
					}
					podMu[pi].Unlock()
					if cr.Intn(3) == 0 {
						time.Sleep(time.Duration(cr.Intn(30)) * time.Millisecond)
					}
				}
			}()
		}
		cw.Wait()
	}
	close(stopBg)
	bg.Wait()
}

type poolStatus struct {
	ENIs map[string]map[string][2]string // eni -> ip -> [pod, status]
	Raw  []eni.Status
}

func (h *poolHist) status() poolStatus {
	st := poolStatus{ENIs: map[string]map[string][2]string{}, Raw: h.mgr.Status()}
	for _, s := range st.Raw {
		if s.NetworkInterfaceID == "" {
			continue
		}
		m := map[string][2]string{}
		for _, u := range s.Usage {
			if len(u) == 3 {
				m[u[0]] = [2]string{u[1], u[2]}
			}
		}
		st.ENIs[s.NetworkInterfaceID] = m
	}
	return st
}

func (st poolStatus) key() string {
	var parts []string
	for _, s := range st.Raw {
		var us []string
		for _, u := range s.Usage {
			us = append(us, strings.Join(u, "/"))
		}
		sort.Strings(us)
		parts = append(parts, s.NetworkInterfaceID+":"+s.Status+":"+strings.Join(us, ","))
	}
	sort.Strings(parts)
	return strings.Join(parts, ";")
}

// ownersAgree: at a quiescent point, an address is owned in the pool iff the ledger has an open hold for that pod.
func (h *poolHist) ownersAgree(prop string) {
	holds, _ := h.mon.holdSnapshot()
	st := h.status()
	for eid, ips := range st.ENIs {
		for ip, ps := range ips {
			a, err := netip.ParseAddr(ip)
			if err != nil {
				continue
			}
			owner := ps[0]
			lh := holds[a]
			if owner != "" && lh == "" {
				h.mon.mu.Lock()
				h.mon.violate("C07", "C07.c-owner-without-holder", "quiescent", fmt.Sprintf("address %s on %s is owned by %q in the pool but no pod holds it (every ADD that took it failed or its pod was torn down)", ip, eid, owner))
				h.mon.mu.Unlock()
			}
			if owner != "" && lh != "" && owner != lh {
				h.mon.mu.Lock()
				h.mon.violate("C01", "C01.a-overlap", "pool-owner-differs", fmt.Sprintf("address %s: pool owner %q, pod holding it %q", ip, owner, lh))
				h.mon.mu.Unlock()
			}
		}
	}
	for a, pod := range holds {
		found := false
		for _, ips := range st.ENIs {
			if ps, ok := ips[a.String()]; ok && ps[0] == pod {
				found = true
			}
		}
		if !found {
			h.mon.mu.Lock()
			site := "plain"
			if hh := h.mon.holds[a]; hh != nil && hh.FailedRepeat {
				site = "after-failed-repeat-add"
			}
			h.mon.violate("C01", "C01.c-holder-not-owner", site, fmt.Sprintf("pod %s holds %s (ADD acknowledged, no DEL) but the pool does not record it as owner: the address can be handed to another pod", pod, a))
			h.mon.mu.Unlock()
		}
	}
}

func (h *poolHist) stop() {
	stopWorkers(h.cancel, &h.wg, h.mon.r)
}

// stopWorkers cancels the pool's context and waits for its workers. eni.Local.notify broadcasts once on
// cancellation without holding the condition's lock, so a worker that has just tested ctx.Done() and is about to
// Wait misses the only wake-up and sleeps for ever; the product exits the process at that point, the harness
// carries on, so the wait is bounded and an abandoned worker is counted, not judged (shutdown is in no property).
func stopWorkers(cancel context.CancelFunc, wg *sync.WaitGroup, r *monitor.Result) {
	cancel()
	done := make(chan struct{})
	go func() { wg.Wait(); close(done) }()
	select {
	case <-done:
	case <-time.After(3 * time.Second):
		r.Count("shutdown:worker-missed-cancel-broadcast", 1)
	}
}

func (h *poolHist) finishEvidence(r *monitor.Result, nontrivial bool) {
	h.mon.mu.Lock()
	for k, v := range h.mon.win {
		r.Count("window:"+k, v)
	}
	h.mon.mu.Unlock()
	if nontrivial {
		r.DistinctKey(h.mon.signature())
	}
	calls := h.cloud.Calls()
	per := map[string]int64{}
	for _, c := range calls {
		per[c.API+"/"+string(c.Fault)]++
	}
	for k, v := range per {
		r.Count("cloud_call:"+k, v)
	}
}

func genPoolCfg(rng *rand.Rand, edge bool) poolCfg {
	cfg := poolCfg{}
	switch rng.Intn(4) {
	case 0:
		cfg.V4, cfg.V6 = true, true
	case 1:
		cfg.V6 = true
	default:
		cfg.V4 = true
	}
	cfg.Slots = 1 + rng.Intn(4)
	cfg.Cap = 2 + rng.Intn(9)
	cfg.Batch = 1 + rng.Intn(10)
	if edge {
		cfg.Cap = 1 + rng.Intn(3)
		cfg.Batch = cfg.Cap + rng.Intn(8)
	}
	npre := rng.Intn(min(cfg.Slots, 2) + 1)
	for i := 0; i < npre; i++ {
		cfg.Pre = append(cfg.Pre, 1+rng.Intn(cfg.Cap))
		cfg.PreV6 = append(cfg.PreV6, rng.Intn(cfg.Cap+1))
	}
	if !cfg.V4 {
		// ipv6-only: the interface still has its primary IPv4 only
		for i := range cfg.Pre {
			cfg.Pre[i] = 1
			cfg.PreV6[i] = 1 + rng.Intn(cfg.Cap)
		}
	}
	cfg.Trunk = npre > 0 && rng.Intn(4) == 0
	cfg.StrayTrunk = npre > 0 && rng.Intn(5) == 0
	cfg.StrayERDMA = npre > 0 && !cfg.StrayTrunk && rng.Intn(5) == 0
	cfg.ERDMA = cfg.V4 && !cfg.V6 && rng.Intn(6) == 0
	capac := cfg.Slots * cfg.Cap
	cfg.MinIdle = rng.Intn(capac/2 + 1)
	cfg.MaxIdle = cfg.MinIdle + rng.Intn(capac+1)
	if edge {
		switch rng.Intn(3) {
		case 0:
			cfg.MaxIdle, cfg.MinIdle = 0, 0
		case 1:
			cfg.MinIdle = capac + 1 + rng.Intn(5)
			cfg.MaxIdle = cfg.MinIdle
		}
	}
	cfg.Policy = []string{"most_ips", "least_ips", ""}[rng.Intn(3)]
	cfg.Pods = 6 + rng.Intn(20)
	cfg.Clients = 4 + rng.Intn(10)
	cfg.OpsPerCli = 8 + rng.Intn(16)
	cfg.LatencyUS = 1 + rng.Intn(30000)
	cfg.Drift = rng.Intn(3) == 0
	cfg.Balancer = rng.Intn(4) != 0
	cfg.Syncs = rng.Intn(3) != 0
	cfg.CancelPct = []int{0, 10, 30, 50}[rng.Intn(4)]
	return cfg
}

func genFaults(rng *rand.Rand, n, within int) map[int]cloudsim.Fault {
	kinds := []cloudsim.FaultKind{cloudsim.FaultErrBefore, cloudsim.FaultErrAfter, cloudsim.FaultPartial, cloudsim.FaultQuotaENI, cloudsim.FaultVSwExhaust, cloudsim.FaultQuotaIP, cloudsim.FaultHalfCreated}
	out := map[int]cloudsim.Fault{}
	for i := 0; i < n; i++ {
		out[1+rng.Intn(within)] = cloudsim.Fault{Kind: kinds[rng.Intn(len(kinds))], DelayA: time.Duration(rng.Intn(40)) * time.Millisecond, DelayB: time.Duration(rng.Intn(40)) * time.Millisecond}
	}
	return out
}

// runPoolHistories runs n histories, `width` at a time.
func runPoolHistories(c *ctxT, prop string, n, width int, mk func(i int, rng *rand.Rand) poolCfg, after func(h *poolHist)) {
	sem := make(chan struct{}, width)
	var wg sync.WaitGroup
	base := c.R.Seed*7919 + int64(c.Batch)*1000003
	for i := 0; i < n; i++ {
		wg.Add(1)
		sem <- struct{}{}
		go func(i int) {
			defer wg.Done()
			defer func() { <-sem }()
			seed := base + int64(i)*104729
			rng := rand.New(rand.NewSource(seed))
			cfg := mk(i, rng)
			hid := c.Batch*100000 + i
			fmt.Printf("CASE %s history %d seed %d cfg %+v\n", prop, hid, seed, cfg)
			h := newPoolHist(c, prop, hid, cfg, seed)
			h.run()
			if after != nil {
				after(h)
			}
			h.stop()
			c.R.Eval(1)
			c.R.Count("client_ops", h.mon.win["fresh_acks"]+h.mon.win["repeat_add_acks"]+h.mon.win["cancelled_adds"])
			nontrivial := h.mon.win["release_while_allocate_in_flight"]+h.mon.win["delete_while_allocate_in_flight"]+h.mon.win["allocate_invoked_during_sync"]+h.mon.win["cancelled_adds"] > 0
			h.finishEvidence(c.R, nontrivial)
			if i < 2 && c.Batch == 0 {
				h.mon.mu.Lock()
				ev := h.mon.events
				if len(ev) > 40 {
					ev = ev[:40]
				}
				c.R.Sample(map[string]any{"history": hid, "config": cfg, "first_events": append([]string(nil), ev...)})
				h.mon.mu.Unlock()
			}
		}(i)
	}
	wg.Wait()
}

func poolRace(rep string) (string, bool) {
	if strings.Contains(rep, "pkg/eni.") {
		return "pool-state", true
	}
	return "", false
}

// settle waits (counted polls, generous wall-clock bound) until no cloud call is in flight and the
// pool status is unchanged for 5 consecutive polls.
func (h *poolHist) settle(maxRounds int) bool {
	stable := 0
	last := ""
	for i := 0; i < maxRounds*10; i++ {
		time.Sleep(60 * time.Millisecond)
		k := h.status().key()
		if h.cloud.InflightTotal() == 0 && k == last {
			stable++
			if stable >= 5 {
				return true
			}
		} else {
			stable = 0
		}
		last = k
	}
	return false
}

func (h *poolHist) balance() {
	h.mon.note("balancer tick")
	bctx, bc := context.WithTimeout(h.ctx, 2*time.Second)
	h.mgr.VerifSyncPool(bctx)
	bc()
}
