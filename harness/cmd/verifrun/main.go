// verifrun: one binary, one sub-command per property. Built with -race from /repo's tree.
//
// The parent process runs no workload: it spawns one child process per batch (so a panic,
// a runtime fatal error or a watchdog only ends that batch), collects each child's result
// dump and its race-detector log, merges them and writes evidence / verdict.
package main

import (
	"bytes"
	"encoding/json"
	"flag"
	"fmt"
	"os"
	"os/exec"
	"path/filepath"
	"regexp"
	"sort"
	"strings"
	"sync"
	"syscall"
	"time"

	"verifharness/monitor"
)

// ctxT is what a batch gets.
type ctxT struct {
	R        *monitor.Result
	Thorough bool
	Batch    int
	NBatch   int
	Replay   string
	Scratch  string // per-batch scratch directory (removed by the parent)
}

type checkDef struct {
	level    string
	batches  func(thorough bool) int                       // number of child processes
	parallel func(thorough bool) int                       // children run concurrently
	timeout  func(thorough bool) time.Duration             // watchdog per child
	fn       func(c *ctxT)                                 // batch body
	race     func(report string) (site string, takes bool) // maps a race report to this property
	netns    bool                                          // child runs under unshare -n -m
}

var registry = map[string]*checkDef{}

// internalCmds: helper child processes (names start with "_")
var internalCmds = map[string]func(args []string) int{}

func register(id string, d *checkDef) { registry[id] = d }

func one(bool) int { return 1 }

func main() {
	if len(os.Args) < 2 {
		ids := []string{}
		for k := range registry {
			ids = append(ids, k)
		}
		sort.Strings(ids)
		fmt.Println("usage: verifrun <ID> [--tier quick|thorough] [--replay file]; ids:", ids)
		os.Exit(3)
	}
	id := os.Args[1]
	if f, ok := internalCmds[id]; ok {
		os.Exit(f(os.Args[2:]))
	}
	fs := flag.NewFlagSet(id, flag.ExitOnError)
	tier := fs.String("tier", envOr("VERIF_TIER", "quick"), "quick|thorough")
	replay := fs.String("replay", "", "replay file")
	child := fs.Int("child", -1, "internal: batch index")
	nbatch := fs.Int("nbatch", 1, "internal: number of batches")
	out := fs.String("out", "", "internal: dump file")
	scratch := fs.String("scratch", "", "internal: scratch dir")
	_ = fs.Parse(os.Args[2:])
	def, ok := registry[id]
	if !ok {
		fmt.Println("unknown check", id)
		os.Exit(3)
	}
	if *tier != "quick" && *tier != "thorough" {
		*tier = "quick"
	}
	thorough := *tier == "thorough"
	prop := id
	if len(id) > 3 && id[0] == 'C' {
		prop = id[:3]
	}
	seed := monitor.SeedFromEnv()
	r := monitor.NewResult(prop, *tier, seed, def.level)

	if *child >= 0 {
		c := &ctxT{R: r, Thorough: thorough, Batch: *child, NBatch: *nbatch, Replay: *replay, Scratch: *scratch}
		def.fn(c)
		b, _ := json.Marshal(r.Export())
		if err := os.WriteFile(*out, b, 0o644); err != nil {
			fmt.Fprintln(os.Stderr, "cannot write dump:", err)
			os.Exit(4)
		}
		os.Exit(0)
	}

	nb := 1
	if def.batches != nil {
		nb = def.batches(thorough)
	}
	par := 1
	if def.parallel != nil {
		par = def.parallel(thorough)
	}
	to := 30 * time.Minute
	if def.timeout != nil {
		to = def.timeout(thorough)
	}
	if *replay != "" {
		nb, par = 1, 1
	}
	base, err := os.MkdirTemp("", "verif-"+id+"-")
	if err != nil {
		fmt.Println("INCONCLUSIVE cannot create scratch:", err)
		os.Exit(2)
	}
	defer os.RemoveAll(base)
	self, _ := os.Executable()
	sem := make(chan struct{}, par)
	var wg sync.WaitGroup
	var mu sync.Mutex
	raceSeen := map[string]int{}
	unrelated := map[string]int{}
	for b := 0; b < nb; b++ {
		wg.Add(1)
		sem <- struct{}{}
		go func(b int) {
			defer wg.Done()
			defer func() { <-sem }()
			dir := filepath.Join(base, fmt.Sprintf("b%d", b))
			_ = os.MkdirAll(dir, 0o755)
			dump := filepath.Join(dir, "dump.json")
			logf := filepath.Join(dir, "log.txt")
			args := []string{id, "--tier", *tier, "--child", fmt.Sprint(b), "--nbatch", fmt.Sprint(nb), "--out", dump, "--scratch", dir}
			if *replay != "" {
				args = append(args, "--replay", *replay)
			}
			var cmd *exec.Cmd
			if def.netns {
				cmd = exec.Command("unshare", append([]string{"-n", "-m", "--", self}, args...)...)
			} else {
				cmd = exec.Command(self, args...)
			}
			lf, _ := os.Create(logf)
			cmd.Stdout, cmd.Stderr = lf, lf
			cmd.Env = append(os.Environ(), fmt.Sprintf("VERIF_SEED=%d", seed),
				"GORACE=halt_on_error=0 log_path="+filepath.Join(dir, "race"))
			cmd.SysProcAttr = &syscall.SysProcAttr{Setpgid: true}
			done := make(chan error, 1)
			if err := cmd.Start(); err != nil {
				r.Inconclusive(fmt.Sprintf("batch %d: cannot start child: %v", b, err))
				return
			}
			go func() { done <- cmd.Wait() }()
			var werr error
			timedOut := false
			select {
			case werr = <-done:
			case <-time.After(to):
				timedOut = true
				_ = syscall.Kill(-cmd.Process.Pid, syscall.SIGQUIT)
				select {
				case werr = <-done:
				case <-time.After(20 * time.Second):
					_ = syscall.Kill(-cmd.Process.Pid, syscall.SIGKILL)
					werr = <-done
				}
			}
			lf.Close()
			logb, _ := os.ReadFile(logf)
			if timedOut {
				keep := filepath.Join(monitor.Root(), "replays", fmt.Sprintf("%s-watchdog-b%d.log", id, b))
				_ = os.MkdirAll(filepath.Dir(keep), 0o755)
				_ = os.WriteFile(keep, headTail(logb, 400000), 0o644)
				r.Inconclusive(fmt.Sprintf("batch %d: watchdog (%v) fired; goroutine dump in %s; last case: %s", b, to, keep, lastCase(logb)))
				return
			}
			db, rerr := os.ReadFile(dump)
			// exit status 66 is the race detector's "reports were written" exit code: the dump is still valid
			if rerr != nil {
				// child died without a result: process-fatal fault (panic outside recover, runtime fatal error, checkptr)
				keep := filepath.Join(monitor.Root(), "replays", fmt.Sprintf("%s-crash-b%d.log", id, b))
				_ = os.MkdirAll(filepath.Dir(keep), 0o755)
				_ = os.WriteFile(keep, tailBytes(logb, 200000), 0o644)
				site := crashSite(logb)
				if bytes.Contains(logb, []byte("panic:")) || bytes.Contains(logb, []byte("fatal error:")) {
					r.Violate(prop+".process-crash", site, fmt.Sprintf("child batch %d died: %v; last case: %s; log %s", b, werr, lastCase(logb), keep), map[string]any{"batch": b, "log": keep, "last_case": lastCase(logb)})
				} else {
					r.Inconclusive(fmt.Sprintf("batch %d: child failed without panic (%v), log %s", b, werr, keep))
				}
				return
			}
			var d monitor.Dump
			if err := json.Unmarshal(db, &d); err != nil {
				r.Inconclusive(fmt.Sprintf("batch %d: bad dump: %v", b, err))
				return
			}
			r.Merge(d)
			// race reports
			files, _ := filepath.Glob(filepath.Join(dir, "race.*"))
			for _, f := range files {
				rb, _ := os.ReadFile(f)
				for _, rep := range splitRaceReports(string(rb)) {
					key := raceKey(rep)
					mu.Lock()
					if def.race != nil {
						if site, takes := def.race(rep); takes {
							raceSeen[key]++
							if raceSeen[key] == 1 {
								keep := filepath.Join(monitor.Root(), "replays", fmt.Sprintf("%s-race-%x.txt", id, hashStr(key)))
								_ = os.MkdirAll(filepath.Dir(keep), 0o755)
								_ = os.WriteFile(keep, []byte(rep), 0o644)
								r.Violate(prop+".data-race", site, "race detector report on state this property names: "+key, map[string]any{"report": keep})
							}
							mu.Unlock()
							continue
						}
					}
					unrelated[key]++
					mu.Unlock()
				}
			}
		}(b)
	}
	wg.Wait()
	r.SetExtra("batches", nb)
	r.SetExtra("race_reports_attributed", len(raceSeen))
	if len(unrelated) > 0 {
		keys := make([]string, 0, len(unrelated))
		for k := range unrelated {
			keys = append(keys, k)
		}
		sort.Strings(keys)
		if len(keys) > 20 {
			keys = keys[:20]
		}
		r.SetExtra("unrelated_race_reports", keys)
	}
	os.Exit(r.Finish())
}

func envOr(k, d string) string {
	if v := os.Getenv(k); v != "" {
		return v
	}
	return d
}

// headTail keeps the beginning (case log, first goroutines incl. main) and the end of a long log.
func headTail(b []byte, n int) []byte {
	if len(b) <= 2*n {
		return b
	}
	out := append([]byte{}, b[:n]...)
	out = append(out, []byte("\n...[cut]...\n")...)
	return append(out, b[len(b)-n:]...)
}

func tailBytes(b []byte, n int) []byte {
	if len(b) > n {
		return b[len(b)-n:]
	}
	return b
}

// children print "CASE <text>" before starting each case
func lastCase(log []byte) string {
	idx := bytes.LastIndex(log, []byte("\nCASE "))
	if idx < 0 {
		if bytes.HasPrefix(log, []byte("CASE ")) {
			idx = -1
		} else {
			return "(none logged)"
		}
	}
	rest := log[idx+1:]
	if e := bytes.IndexByte(rest, '\n'); e >= 0 {
		rest = rest[:e]
	}
	if len(rest) > 600 {
		rest = rest[:600]
	}
	return string(rest)
}

var frameRe = regexp.MustCompile(`(?m)^(github\.com/AliyunContainerService/terway/[^\s(]+)`)

func crashSite(log []byte) string {
	i := bytes.Index(log, []byte("panic:"))
	if i < 0 {
		i = bytes.Index(log, []byte("fatal error:"))
	}
	if i < 0 {
		return "unknown"
	}
	m := frameLineRe.FindSubmatch(log[i:])
	if m == nil {
		return "no-terway-frame"
	}
	// the whole function name: "pkg/eni.(*Local).commitWithOwner", cut at the argument list
	fn := string(m[1])
	if k := strings.LastIndex(fn, "("); k > 0 {
		fn = fn[:k]
	}
	return trimPkg(fn)
}

var frameLineRe = regexp.MustCompile(`(?m)^(github\.com/AliyunContainerService/terway/[^\n]+)$`)

func trimPkg(s string) string {
	return strings.TrimPrefix(s, "github.com/AliyunContainerService/terway/")
}

func splitRaceReports(s string) []string {
	var out []string
	for _, p := range strings.Split(s, "==================") {
		if strings.Contains(p, "WARNING: DATA RACE") {
			out = append(out, p)
		}
	}
	return out
}

var raceFrameRe = regexp.MustCompile(`(?m)^\s+(github\.com/AliyunContainerService/terway/[^\s(]+)\(`)

// raceKey: the two accesses' innermost terway frames (line numbers stripped), sorted.
func raceKey(rep string) string {
	parts := regexp.MustCompile(`(?m)^(Previous |)(Read|Write|read|write|Atomic)[^\n]*by `).Split(rep, -1)
	var fr []string
	for i, p := range parts {
		if i == 0 {
			continue
		}
		// stop at "Goroutine" creation stacks
		if j := strings.Index(p, "\nGoroutine "); j >= 0 {
			p = p[:j]
		}
		m := raceFrameRe.FindStringSubmatch(p)
		if m != nil {
			fr = append(fr, trimPkg(m[1]))
		} else {
			fr = append(fr, "non-terway")
		}
	}
	sort.Strings(fr)
	return strings.Join(fr, " <-> ")
}

func hashStr(s string) uint32 {
	var h uint32 = 2166136261
	for i := 0; i < len(s); i++ {
		h ^= uint32(s[i])
		h *= 16777619
	}
	return h
}
