package main

// C19 — advertised node capacity never exceeds what the instance can deliver.
// Chain under monitor: generated ecs.InstanceType -> LimitProviders["ecs"] (GetLimit through a
// simulated DescribeInstanceTypes, GetLimitFromAnno) -> daemon checkInstance + getPoolConfig, and
// -> controller node.ReconcileNode -> daemon-side eni.nodeReconcile -> controller again
// (annotations, allocatable). Oracle: independent arithmetic on the instance-type vector.

import (
	"context"
	"encoding/json"
	"fmt"
	"math/rand"
	"strconv"
	"sync"
	"time"

	"github.com/aliyun/alibaba-cloud-sdk-go/services/ecs"
	corev1 "k8s.io/api/core/v1"
	metav1 "k8s.io/apimachinery/pkg/apis/meta/v1"
	k8stypes "k8s.io/apimachinery/pkg/types"
	"k8s.io/client-go/tools/record"
	"sigs.k8s.io/controller-runtime/pkg/client"
	"sigs.k8s.io/controller-runtime/pkg/reconcile"

	"github.com/AliyunContainerService/terway/daemon"
	aliyunClient "github.com/AliyunContainerService/terway/pkg/aliyun/client"
	"github.com/AliyunContainerService/terway/pkg/apis/network.alibabacloud.com/v1beta1"
	ctrlreg "github.com/AliyunContainerService/terway/pkg/controller"
	mnode "github.com/AliyunContainerService/terway/pkg/controller/multi-ip/node"
	nodectl "github.com/AliyunContainerService/terway/pkg/controller/node"
	"github.com/AliyunContainerService/terway/pkg/controller/status"
	"github.com/AliyunContainerService/terway/pkg/eni"
	"github.com/AliyunContainerService/terway/pkg/utils/nodecap"
	"github.com/AliyunContainerService/terway/types"
	tdaemon "github.com/AliyunContainerService/terway/types/daemon"

	"verifharness/apisim"
)

func init() {
	register("C19", &checkDef{level: "exploration", fn: runC19,
		batches:  func(th bool) int { return map[bool]int{false: 2, true: 8}[th] },
		parallel: func(th bool) int { return map[bool]int{false: 2, true: 8}[th] },
		timeout: func(th bool) time.Duration {
			return map[bool]time.Duration{false: 30 * time.Minute, true: 90 * time.Minute}[th]
		},
	})
}

type c19IT struct {
	Adapters, Total, V4, V6, ERI int
	Trunk                        bool
}

func (t c19IT) member() int {
	if !t.Trunk {
		return 0
	}
	return max(t.Total-t.Adapters, 0)
}
func (t c19IT) erdma() int {
	if t.ERI <= 0 || t.Adapters <= 2 {
		return 0
	}
	if t.Adapters >= 8 {
		return min(2, t.ERI)
	}
	return min(1, t.ERI)
}

func genC19IT(rng *rand.Rand) c19IT {
	t := c19IT{Adapters: 1 + rng.Intn(32), V4: 1 + rng.Intn(50), Trunk: rng.Intn(2) == 0, ERI: []int{0, 0, 1, 2, 3, 4}[rng.Intn(6)]}
	t.Total = t.Adapters + []int{0, 0, 1, 5, 50, 200}[rng.Intn(6)]
	switch rng.Intn(3) {
	case 0:
		t.V6 = 0
	case 1:
		t.V6 = t.V4
	default:
		t.V6 = 1 + rng.Intn(50)
	}
	if rng.Intn(6) == 0 {
		t.Adapters = 1 + rng.Intn(3) // tiny instances
		if t.Total < t.Adapters {
			t.Total = t.Adapters
		}
	}
	return t
}

func (t c19IT) ecs(id string) ecs.InstanceType {
	return ecs.InstanceType{InstanceTypeId: id, EniQuantity: t.Adapters, EniTotalQuantity: t.Total, EniPrivateIpAddressQuantity: t.V4, EniIpv6AddressQuantity: t.V6, EniTrunkSupported: t.Trunk, EriQuantity: t.ERI}
}

// c19ECS serves DescribeInstanceTypes; every other cloud call is outside this check.
type c19ECS struct {
	ctrlreg.Interface
	mu    sync.Mutex
	types map[string]ecs.InstanceType
}

func (c *c19ECS) DescribeInstanceTypes(ctx context.Context, ids []string) ([]ecs.InstanceType, error) {
	c.mu.Lock()
	defer c.mu.Unlock()
	var out []ecs.InstanceType
	for _, id := range ids {
		if t, ok := c.types[id]; ok {
			out = append(out, t)
		}
	}
	return out, nil
}

func runC19(c *ctxT) {
	r := c.R
	rng := rand.New(rand.NewSource(r.Seed*131 + int64(c.Batch)))
	n := 6000
	if c.Thorough {
		n = 120000
	}
	erdmaOS := c.Batch%2 == 0 // half of the batches run with the OS erdma capability set (the hook constructor keeps the device plugin from starting)
	r.Rule = "generated instance-type vectors (adapters 1..32, total >= adapters, IPv4 per adapter 1..50, IPv6 in {0, =IPv4, other}, trunk support, ERI 0..4) x configurations (max/min ENI, pool sizes 0..2x capacity incl. min > max, ip stack, trunk, erdma, exclusive-ENI label, default ratio/shift) through GetLimit/GetLimitFromAnno -> checkInstance + getPoolConfig and -> controller ReconcileNode -> daemon-side nodeReconcile -> controller (annotations, allocatable). distinct = distinct (adapters bucket, ipv6 class, trunk, eri, stack, trunk cfg, erdma cfg, exclusive) classes"
	r.Assumptions = []string{"default capacity ratio (1) and shift (0); negative sizes are outside the domain", "the ERDMA device plugin itself is not started (it needs the kubelet socket); the flavor it would serve is judged"}
	if erdmaOS {
		nodecap.SetNodeCapabilities(nodecap.NodeCapabilityERDMA, "true")
	}
	go func() { // the node controller notifies the IPAM controller through a buffered channel
		for range mnode.EventCh {
		}
	}()
	cloud := &c19ECS{types: map[string]ecs.InstanceType{}}
	for i := 0; i < n; i++ {
		t := genC19IT(rng)
		id := fmt.Sprintf("ecs.t%d.b%d", i, c.Batch)
		it := t.ecs(id)
		cloud.mu.Lock()
		cloud.types[id] = it
		cloud.mu.Unlock()
		rep := map[string]any{"instance_type": t}
		var lim *aliyunClient.Limits
		var err error
		if rng.Intn(2) == 0 {
			lim, err = aliyunClient.LimitProviders["ecs"].GetLimit(cloud, id)
		} else {
			b, _ := json.Marshal(it)
			lim, err = aliyunClient.LimitProviders["ecs"].GetLimitFromAnno(map[string]string{"alibabacloud.com/instance-type-info": string(b)})
		}
		r.Eval(1)
		if err != nil || lim == nil {
			r.Violate("C19.limit-unavailable", "provider", fmt.Sprintf("limit provider failed for %+v: %v", t, err), rep)
			continue
		}
		if lim.Adapters != t.Adapters || lim.IPv4PerAdapter != t.V4 || lim.IPv6PerAdapter != t.V6 || lim.MemberAdapterLimit != t.member() || lim.ERDMARes() != t.erdma() || lim.MultiIPPod() != (t.Adapters-1)*t.V4 || lim.ExclusiveENIPod() != t.Adapters-1 {
			r.Violate("C19.limits-differ-from-instance-type", "provider", fmt.Sprintf("limits %+v (erdma %d) do not match instance type %+v (member %d, erdma %d)", *lim, lim.ERDMARes(), t, t.member(), t.erdma()), rep)
		}
		c19Daemon(c, rng, t, lim, rep)
		c19Controllers(c, rng, t, id, cloud, rep)
		if i < 2 {
			r.Sample(rep)
		}
	}
}

func c19Cfg(rng *rand.Rand, t c19IT) *tdaemon.Config {
	capac := max((t.Adapters-1)*t.V4, 0)
	cfg := &tdaemon.Config{IPStack: []string{"ipv4", "dual", "ipv4", "dual", "ipv6"}[rng.Intn(5)], EnableENITrunking: rng.Intn(2) == 0, EnableERDMA: rng.Intn(3) == 0}
	cfg.MaxPoolSize = rng.Intn(2*capac + 3)
	cfg.MinPoolSize = rng.Intn(2*capac + 3)
	if rng.Intn(3) == 0 {
		cfg.MaxENI = rng.Intn(t.Total + 3)
	}
	if rng.Intn(4) == 0 {
		cfg.MinENI = rng.Intn(t.Adapters + 2)
	}
	if rng.Intn(6) == 0 {
		cfg.IPAMType = types.IPAMTypeCRD
	}
	cfg.Populate()
	return cfg
}

func c19Daemon(c *ctxT, rng *rand.Rand, t c19IT, lim *aliyunClient.Limits, rep map[string]any) {
	r := c.R
	cfg := c19Cfg(rng, t)
	rep["daemon_config"] = map[string]any{"ip_stack": cfg.IPStack, "trunk": cfg.EnableENITrunking, "erdma": cfg.EnableERDMA, "max_pool": cfg.MaxPoolSize, "min_pool": cfg.MinPoolSize, "max_eni": cfg.MaxENI, "min_eni": cfg.MinENI, "ipam": cfg.IPAMType}
	wantV6 := cfg.IPStack == "dual" || cfg.IPStack == "ipv6"
	v4, v6 := daemon.VerifCheckInstance(lim, tdaemon.ModeENIMultiIP, cfg)
	_ = v4
	if v6 && (t.V6 <= 0 || t.V6 != t.V4) {
		r.Violate("C19.unsupported-feature-enabled", "daemon/ipv6", fmt.Sprintf("IPv6 enabled although the instance has %d IPv6 per adapter (IPv4 %d)", t.V6, t.V4), rep)
	}
	if cfg.EnableENITrunking && t.member() <= 0 {
		r.Violate("C19.unsupported-feature-enabled", "daemon/trunk", fmt.Sprintf("trunking left enabled although the instance supports %d member ENIs", t.member()), rep)
	}
	if cfg.EnableERDMA && t.erdma() <= 0 {
		r.Violate("C19.unsupported-feature-enabled", "daemon/erdma", fmt.Sprintf("ERDMA left enabled although the instance delivers %d RDMA interfaces", t.erdma()), rep)
	}
	pc, err := daemon.VerifGetPoolConfig(cfg, tdaemon.ModeENIMultiIP, lim)
	if err != nil {
		return
	}
	slots := t.Adapters - 1
	bad := func(site, msg string) {
		r.Violate("C19.pool-config-exceeds-instance", site, msg+fmt.Sprintf(" (pool config %+v, instance %+v)", *pc, t), rep)
	}
	if pc.MaxENI > slots || pc.MaxENI < 0 {
		bad("daemon/max-eni", fmt.Sprintf("MaxENI=%d, attachable secondary interfaces %d", pc.MaxENI, slots))
	}
	if pc.MaxIPPerENI > t.V4 {
		bad("daemon/ip-per-eni", fmt.Sprintf("MaxIPPerENI=%d > %d", pc.MaxIPPerENI, t.V4))
	}
	if pc.Capacity > slots*t.V4 || pc.Capacity < 0 {
		bad("daemon/capacity", fmt.Sprintf("Capacity=%d, slots x addresses = %d", pc.Capacity, slots*t.V4))
	}
	if !(0 <= pc.MinPoolSize && pc.MinPoolSize <= pc.MaxPoolSize && pc.MaxPoolSize <= pc.Capacity) {
		bad("daemon/watermarks", fmt.Sprintf("watermarks min=%d max=%d capacity=%d violate 0<=min<=max<=capacity", pc.MinPoolSize, pc.MaxPoolSize, pc.Capacity))
	}
	if pc.MaxMemberENI > t.member() {
		bad("daemon/member-eni", fmt.Sprintf("MaxMemberENI=%d > %d", pc.MaxMemberENI, t.member()))
	}
	if pc.ERdmaCapacity > t.erdma()*t.V4 {
		bad("daemon/erdma-capacity", fmt.Sprintf("ERdmaCapacity=%d > %d", pc.ERdmaCapacity, t.erdma()*t.V4))
	}
	r.DistinctKey(fmt.Sprintf("d/a%d/v6%v/tr%v/eri%d/%s/%v/%v/%v", bucket(t.Adapters/3), t.V6 == t.V4, t.Trunk, min(t.ERI, 2), cfg.IPStack, cfg.EnableENITrunking, cfg.EnableERDMA, wantV6))
}

func c19Controllers(c *ctxT, rng *rand.Rand, t c19IT, id string, cloud *c19ECS, rep map[string]any) {
	r := c.R
	exclusive := rng.Intn(5) == 0
	stack := []string{"ipv4", "dual", "", "dual"}[rng.Intn(4)]
	trunkCfg := rng.Intn(2) == 0
	erdmaCfg := rng.Intn(3) == 0
	capac := max((t.Adapters-1)*t.V4, 0)
	conf := map[string]any{"version": "1", "ip_stack": stack, "enable_eni_trunking": trunkCfg, "enable_erdma": erdmaCfg, "max_pool_size": rng.Intn(2*capac + 3), "min_pool_size": rng.Intn(2*capac + 3),
		"vswitches": map[string][]string{"zone-a": {"vsw-1"}}, "security_group": "sg-1"}
	cb, _ := json.Marshal(conf)
	rep["controller_config"] = conf
	rep["exclusive"] = exclusive
	labels := map[string]string{corev1.LabelInstanceTypeStable: id, corev1.LabelTopologyRegion: "cn-sim", corev1.LabelTopologyZone: "zone-a"}
	if exclusive {
		labels[types.ExclusiveENIModeLabel] = "eniOnly"
	}
	kn := &corev1.Node{ObjectMeta: metav1.ObjectMeta{Name: "node-1", UID: "node-uid", Labels: labels}, Spec: corev1.NodeSpec{ProviderID: "cn-sim.i-123"}}
	cm := &corev1.ConfigMap{ObjectMeta: metav1.ObjectMeta{Name: "eni-config", Namespace: "kube-system"}, Data: map[string]string{"eni_conf": string(cb)}}
	cl := apisim.New(nil, kn, cm)
	ctl := nodectl.NewVerifReconcileNode(cl, apisim.Scheme(), cloud, &record.FakeRecorder{}, false, status.NewCache[status.NodeStatus]())
	agent := eni.NewVerifNodeReconcile(cl, &record.FakeRecorder{}, "node-1")
	req := reconcile.Request{NamespacedName: k8stypes.NamespacedName{Name: "node-1"}}
	ctx := context.Background()
	step := func(what string, f func() error) bool {
		var err error
		func() {
			defer func() {
				if e := recover(); e != nil {
					err = fmt.Errorf("panic: %v", e)
				}
			}()
			err = f()
		}()
		if err != nil {
			r.Violate("C19.reconcile-failed", what, fmt.Sprintf("%s failed: %v", what, err), rep)
			return false
		}
		return true
	}
	// in a fifth of the cases the node first joined as another instance type and was resized in place (same
	// instance id, only the instance-type label changes): what is advertised must follow the new type
	if rng.Intn(5) == 0 {
		prev := genC19IT(rng)
		prevID := id + ".before-resize"
		cloud.mu.Lock()
		cloud.types[prevID] = prev.ecs(prevID)
		cloud.mu.Unlock()
		was := &corev1.Node{}
		if err := cl.Get(ctx, client.ObjectKey{Name: "node-1"}, was); err == nil {
			was.Labels[corev1.LabelInstanceTypeStable] = prevID
			_ = cl.Update(ctx, was)
		}
		if !step("controller/before-resize", func() error { _, err := ctl.Reconcile(ctx, req); return err }) {
			return
		}
		if !step("agent/before-resize", func() error { _, err := agent.Reconcile(ctx, req); return err }) {
			return
		}
		if err := cl.Get(ctx, client.ObjectKey{Name: "node-1"}, was); err == nil {
			was.Labels[corev1.LabelInstanceTypeStable] = id
			_ = cl.Update(ctx, was)
		}
		rep["resized_from"] = prev
		r.Count("in_place_resize_cases", 1)
	}
	if !step("controller", func() error { _, err := ctl.Reconcile(ctx, req); return err }) {
		return
	}
	if !step("agent", func() error { _, err := agent.Reconcile(ctx, req); return err }) {
		return
	}
	cr := &v1beta1.Node{}
	if err := cl.Get(ctx, client.ObjectKey{Name: "node-1"}, cr); err != nil {
		r.Violate("C19.reconcile-failed", "no-node-cr", err.Error(), rep)
		return
	}
	// a trunk interface becomes ready on some nodes, so that member capacity is reported
	if cr.Spec.ENISpec != nil && cr.Spec.ENISpec.EnableTrunk && rng.Intn(2) == 0 {
		cr.Status.NetworkInterfaces = map[string]*v1beta1.NetworkInterface{"eni-trunk": {ID: "eni-trunk", Status: "InUse", NetworkInterfaceType: v1beta1.ENITypeTrunk}}
		_ = cl.Status().Update(ctx, cr)
	}
	if !step("controller-2", func() error { _, err := ctl.Reconcile(ctx, req); return err }) {
		return
	}
	_ = cl.Get(ctx, client.ObjectKey{Name: "node-1"}, cr)
	cur := &corev1.Node{}
	_ = cl.Get(ctx, client.ObjectKey{Name: "node-1"}, cur)
	rep["node_cap"] = cr.Spec.NodeCap
	rep["flavor"] = cr.Spec.Flavor
	rep["annotations"] = cur.Annotations
	nc := cr.Spec.NodeCap
	slots := t.Adapters - 1
	if nc.Adapters != t.Adapters || nc.IPv4PerAdapter != t.V4 || nc.IPv6PerAdapter != t.V6 || nc.TotalAdapters != t.Total {
		r.Violate("C19.limits-differ-from-instance-type", "controller/nodecap", fmt.Sprintf("NodeCap %+v does not match instance type %+v", nc, t), rep)
	}
	if nc.EriQuantity > t.erdma() {
		r.Violate("C19.rdma-over-advertised", "controller/nodecap", fmt.Sprintf("NodeCap.EriQuantity=%d, the instance delivers %d RDMA interfaces", nc.EriQuantity, t.erdma()), rep)
	}
	if nc.MemberAdapterLimit > t.member() {
		r.Violate("C19.member-eni-over-advertised", "controller/nodecap", fmt.Sprintf("NodeCap.MemberAdapterLimit=%d > %d", nc.MemberAdapterLimit, t.member()), rep)
	}
	sum := 0
	for _, f := range cr.Spec.Flavor {
		if f.Count < 0 {
			r.Violate("C19.flavor-exceeds-slots", "negative", fmt.Sprintf("flavor %+v has a negative count", f), rep)
		}
		sum += f.Count
		if f.NetworkInterfaceTrafficMode == v1beta1.NetworkInterfaceTrafficModeHighPerformance && f.Count > t.erdma() {
			r.Violate("C19.rdma-over-advertised", "agent/flavor", fmt.Sprintf("RDMA flavor count %d > %d", f.Count, t.erdma()), rep)
		}
	}
	if sum > max(slots, 0) {
		r.Violate("C19.flavor-exceeds-slots", "sum", fmt.Sprintf("flavor counts sum to %d, attachable secondary interfaces %d: %+v", sum, slots, cr.Spec.Flavor), rep)
	}
	if sp := cr.Spec.ENISpec; sp != nil {
		if sp.EnableIPv6 && (t.V6 <= 0 || t.V6 != t.V4) {
			r.Violate("C19.unsupported-feature-enabled", "agent/ipv6", fmt.Sprintf("EnableIPv6 although IPv6 per adapter is %d (IPv4 %d)", t.V6, t.V4), rep)
		}
		if sp.EnableTrunk && (t.member() <= 0 || exclusive) {
			r.Violate("C19.unsupported-feature-enabled", "agent/trunk", fmt.Sprintf("EnableTrunk although member limit is %d (exclusive=%v)", t.member(), exclusive), rep)
		}
		if sp.EnableERDMA && t.erdma() <= 0 {
			r.Violate("C19.unsupported-feature-enabled", "agent/erdma", "EnableERDMA although the instance delivers no RDMA interface", rep)
		}
	}
	if v, ok := cur.Annotations[string(types.NormalIPTypeIPs)]; ok {
		nip, _ := strconv.Atoi(v)
		limit := max(slots, 0) * t.V4
		if exclusive {
			limit = max(slots, 0)
		}
		if nip > limit {
			r.Violate("C19.ip-capacity-over-advertised", map[bool]string{true: "exclusive", false: "shared"}[exclusive], fmt.Sprintf("max-available-ip=%d > %d", nip, limit), rep)
		}
	}
	for name, q := range cur.Status.Allocatable {
		switch string(name) {
		case "aliyun/member-eni":
			if int(q.Value()) > t.member() {
				r.Violate("C19.member-eni-over-advertised", "allocatable", fmt.Sprintf("allocatable member-eni %d > %d", q.Value(), t.member()), rep)
			}
			r.Count("member_eni_reported", 1)
		case "aliyun/eni":
			if int(q.Value()) > max(slots, 0) {
				r.Violate("C19.ip-capacity-over-advertised", "allocatable-eni", fmt.Sprintf("allocatable eni %d > %d", q.Value(), slots), rep)
			}
			r.Count("exclusive_eni_reported", 1)
		}
	}
	if cr.Spec.Pool != nil {
		r.Count("node_cr_pools_seen", 1)
	}
	r.DistinctKey(fmt.Sprintf("c/a%d/v6%v/tr%v/eri%d/%s/%v/%v/x%v", bucket(t.Adapters/3), t.V6 == t.V4, t.Trunk, min(t.ERI, 2), stack, trunkCfg, erdmaCfg, exclusive))
}
