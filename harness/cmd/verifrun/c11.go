package main

// C11 — fixed IPs survive recreation; the leaked-interface collector only reaps what is provably ours and stale.
// Harness and monitors: podeni.go (closed loop) + two directed generators in this file.

import (
	"context"
	"fmt"
	"math/rand"
	"time"

	corev1 "k8s.io/api/core/v1"
	metav1 "k8s.io/apimachinery/pkg/apis/meta/v1"

	"verifharness/cloudsim"

	v1beta1 "github.com/AliyunContainerService/terway/pkg/apis/network.alibabacloud.com/v1beta1"
	"github.com/AliyunContainerService/terway/types"
)

func init() {
	register("C11", &checkDef{level: "exploration", fn: runC11, race: peRace,
		batches:  func(th bool) int { return map[bool]int{false: 4, true: 16}[th] },
		parallel: func(bool) int { return 4 },
		timeout: func(th bool) time.Duration {
			return map[bool]time.Duration{false: 20 * time.Minute, true: 90 * time.Minute}[th]
		},
	})
}

func runC11(c *ctxT) {
	r := c.R
	r.Rule = "(1) closed-loop per-pod ENI histories (podeni.go) biased to fixed allocations (Never, TTL 48h, TTL 0s, mixed across a pod's interfaces), with recreation under the same name, record and interface collector passes and ageing of cloud interfaces: every time a record reaches bound a fixed-IP pod must hold the interface ids and addresses it held at its first bind; every write that moves a record with a fixed allocation to deleting is judged against an independent evaluation of the release strategies (60 s margin around each TTL) and the pod's liveness; every Detach/Delete issued by the leaked-interface collector must name an interface with both cluster tags, older than the grace period (judged at 9 min) and referenced by no record. (2) directed record-collector cases: generated records (1-3 allocations; elastic / Never / TTL in {2m,10m,1h,48h,0s,-5m,garbage}; last-seen at now-{0, TTL-61s, TTL+61s, 10xTTL}; phases; pod absent / running / exited / not requiring) through one real gcCRPodENIs pass. (3) directed interface-collector cases: populations of 5-60 cloud interfaces over {our tags, foreign creator, other cluster, no tags, one tag only} x {age 0, 9m, 11m, 3d, unreadable} x {referenced, not} x {Secondary/Available, Member/InUse, Secondary/InUse, Trunk/InUse} through one real collector pass; reaps of stale own unreferenced interfaces are counted so that the pass is known to do work. distinct = case signature"
	r.Assumptions = []string{"terway reads time.Now(); inputs are placed relative to it with margins of at least 60 s, far larger than a run", "TTL boundary itself (within 60 s) is not judged"}
	peSetGlobals(c)
	nDir := 300
	nHist := 80
	if c.Thorough {
		nDir, nHist = 2500, 400
	}
	base := c.R.Seed*7919 + int64(c.Batch)*1000003
	for i := 0; i < nDir; i++ {
		rng := rand.New(rand.NewSource(base + int64(i)*7))
		c11RecordCase(c, 700000+c.Batch*10000+i, rng)
		c11InterfaceCase(c, 600000+c.Batch*10000+i, rng)
	}
	// directed: the collector has decided to release the record of a fixed-IP pod whose TTL is over; before its
	// write lands the pod returns and the record is re-bound to it
	if c.Batch == 0 {
		id := 0
		for _, trunk := range []bool{true, false} {
			for _, at := range []string{"get", "write"} {
				id++
				hid := 820000 + id
				fmt.Printf("CASE C11 directed-gc %d trunk=%v at=%s\n", hid, trunk, at)
				h := newPeHist(c, "C11", hid, peCfg{Trunk: trunk, Names: 1}, int64(hid))
				sp := h.mon.spec["p0"]
				sp.Fixed, sp.Owner, sp.NIfs = "ttl-zero", "StatefulSet", 1
				c11ScriptReturnDuringGC(h, at)
				c.R.Eval(1)
				c.R.Count("directed_return_during_collector_cases", 1)
				h.finish(c.R)
			}
		}
	}
	// directed: a TTL pod is away for most of its TTL, returns (the record is re-bound to it), and leaves again:
	// the TTL runs from the second departure, whatever the record carried before
	if c.Batch == 1%max(c.NBatch, 1) {
		id := 0
		for _, trunk := range []bool{true, false} {
			for _, first := range []time.Duration{47 * time.Hour, 30 * time.Hour} {
				id++
				hid := 830000 + id
				fmt.Printf("CASE C11 directed-ttl %d trunk=%v first-absence=%s\n", hid, trunk, first)
				h := newPeHist(c, "C11", hid, peCfg{Trunk: trunk, Names: 1}, int64(hid))
				sp := h.mon.spec["p0"]
				sp.Fixed, sp.Owner, sp.NIfs = "ttl-long", "StatefulSet", 1
				c11ScriptTTLAcrossReturn(h, first)
				c.R.Eval(1)
				c.R.Count("directed_ttl_across_return_cases", 1)
				h.finish(c.R)
			}
		}
	}
	runPeHistories(c, "C11", nHist, 64, func(rng *rand.Rand) peCfg {
		cfg := genPeCfg(rng)
		cfg.FixedBias = true
		cfg.Deposed = false
		return cfg
	}, func(h *peHist) {
		peRandomWalk(h)
		peSettle(h, 12, true)
		h.age()
		h.gcInterfaces()
	})
}

var c11TTLs = []string{"2m", "10m", "1h", "48h", "0s", "-5m", "garbage"}

// c11RecordCase: generated records through one gcCRPodENIs pass.
func c11RecordCase(c *ctxT, hid int, rng *rand.Rand) {
	cfg := peCfg{Trunk: true, Names: 0}
	h := newPeHist(c, "C11", hid, cfg, int64(hid))
	fmt.Printf("CASE C11 records %d\n", hid)
	n := 3 + rng.Intn(6)
	now := time.Now()
	sig := ""
	for i := 0; i < n; i++ {
		name := fmt.Sprintf("r%d", i)
		rec := &v1beta1.PodENI{ObjectMeta: metav1.ObjectMeta{Name: name, Namespace: "ns", Finalizers: []string{types.FinalizerPodENI}, Annotations: map[string]string{}}}
		var maxTTL time.Duration
		na := 1 + rng.Intn(3)
		kinds := ""
		for a := 0; a < na; a++ {
			al := v1beta1.Allocation{ENI: v1beta1.ENI{ID: fmt.Sprintf("eni-r%d-%d", i, a)}, IPv4: fmt.Sprintf("10.9.%d.%d", i, a+1)}
			switch rng.Intn(4) {
			case 0:
				al.AllocationType = v1beta1.AllocationType{Type: v1beta1.IPAllocTypeElastic}
				kinds += "e"
			case 1:
				al.AllocationType = v1beta1.AllocationType{Type: v1beta1.IPAllocTypeFixed, ReleaseStrategy: v1beta1.ReleaseStrategyNever}
				kinds += "n"
			default:
				ttl := c11TTLs[rng.Intn(len(c11TTLs))]
				al.AllocationType = v1beta1.AllocationType{Type: v1beta1.IPAllocTypeFixed, ReleaseStrategy: v1beta1.ReleaseStrategyTTL, ReleaseAfter: ttl}
				if d, err := time.ParseDuration(ttl); err == nil && d > maxTTL {
					maxTTL = d
				}
				kinds += "t" + ttl
			}
			rec.Spec.Allocations = append(rec.Spec.Allocations, al)
		}
		// the pod
		podKind := []string{"absent", "running", "exited", "hostnet", "absent", "absent"}[rng.Intn(6)]
		uid := fmt.Sprintf("uid-%s", name)
		rec.Annotations[types.PodUID] = uid
		if podKind != "absent" {
			p := &pePod{Name: name, UID: uid, Node: "node-1", Exists: true, Exited: podKind == "exited"}
			h.mon.mu.Lock()
			h.mon.cur[name], h.mon.byUID[uid] = p, p
			if podKind == "hostnet" {
				p.Exited = true // not a consumer of the record
			}
			h.mon.mu.Unlock()
			obj := &corev1.Pod{ObjectMeta: metav1.ObjectMeta{Name: name, Namespace: "ns", Annotations: map[string]string{types.PodENI: "true"}},
				Spec: corev1.PodSpec{NodeName: "node-1", HostNetwork: podKind == "hostnet", Containers: []corev1.Container{{Name: "c", Image: "x"}}}}
			obj.SetUID(k8sUID(uid))
			obj.Status.Phase = corev1.PodRunning
			if podKind == "exited" {
				obj.Status.Phase = corev1.PodSucceeded
			}
			_ = h.cl.Create(context.Background(), obj)
			if podKind == "exited" {
				_ = h.cl.Status().Update(context.Background(), obj)
			}
		}
		if err := h.cl.Create(context.Background(), rec); err != nil {
			c.R.Inconclusive("cannot create record: " + err.Error())
			return
		}
		phase := []v1beta1.Phase{v1beta1.ENIPhaseBind, v1beta1.ENIPhaseUnbind, v1beta1.ENIPhaseUnbind, v1beta1.ENIPhaseInitial, v1beta1.ENIPhaseDetaching, v1beta1.ENIPhaseBinding}[rng.Intn(6)]
		rec.Status.Phase = phase
		off := []time.Duration{0, maxTTL - 61*time.Second, maxTTL + 61*time.Second, 10 * maxTTL, 3 * time.Minute}[rng.Intn(5)]
		rec.Status.PodLastSeen = metav1.NewTime(now.Add(-off))
		if err := h.cl.Status().Update(context.Background(), rec); err != nil {
			c.R.Inconclusive("cannot write record status: " + err.Error())
			return
		}
		sig += fmt.Sprintf("%s/%s/%s/%s;", kinds, podKind, phase, off.Round(time.Minute))
		c.R.DistinctKey("rec/" + kinds + "/" + podKind + "/" + string(phase) + "/" + off.Round(time.Minute).String())
	}
	h.gcRecords()
	// what was released, for the evidence
	h.mon.mu.Lock()
	for _, rec := range h.mon.recs {
		if peState(rec) == "deleting" {
			c.R.Count("records_released_by_collector", 1)
		} else {
			c.R.Count("records_kept_by_collector", 1)
		}
	}
	h.mon.mu.Unlock()
	c.R.Eval(1)
	c.R.Count("directed_record_cases", 1)
}

// c11InterfaceCase: a generated population of cloud interfaces through one collector pass.
func c11InterfaceCase(c *ctxT, hid int, rng *rand.Rand) {
	cfg := peCfg{Trunk: true, Names: 0}
	h := newPeHist(c, "C11", hid, cfg, int64(hid))
	fmt.Printf("CASE C11 interfaces %d\n", hid)
	n := 5 + rng.Intn(56)
	now := time.Now().UTC()
	type plan struct {
		id             string
		ours, old, ref bool
		reapable       bool
	}
	var plans []plan
	var refs []v1beta1.Allocation
	h.cloud.Mutate(func(cc *cloudsim.CtrlCloud) {
		for i := 0; i < n; i++ {
			e := &cloudsim.CENI{ID: fmt.Sprintf("eni-g%03d", i), VSW: "vsw-1", Tags: map[string]string{}, TrafficMode: "Standard"}
			pl := plan{id: e.ID}
			tagKind := rng.Intn(7)
			switch tagKind {
			case 0, 1:
				e.Tags[types.TagKeyClusterID], e.Tags[types.NetworkInterfaceTagCreatorKey] = peCluster, types.TagTerwayController
				pl.ours = true
			case 2:
				e.Tags[types.TagKeyClusterID], e.Tags[types.NetworkInterfaceTagCreatorKey] = peCluster, "terway" // the node agent's interfaces
			case 3:
				e.Tags[types.TagKeyClusterID], e.Tags[types.NetworkInterfaceTagCreatorKey] = "c-other", types.TagTerwayController
			case 4:
			case 5:
				e.Tags[types.TagKeyClusterID] = peCluster
			case 6:
				e.Tags[types.NetworkInterfaceTagCreatorKey] = types.TagTerwayController
			}
			ageKind := rng.Intn(5)
			switch ageKind {
			case 0:
				e.CreationTime = now.Format("2006-01-02T15:04:05Z")
			case 1:
				e.CreationTime = now.Add(-8 * time.Minute).Format("2006-01-02T15:04:05Z")
			case 2:
				e.CreationTime = now.Add(-12 * time.Minute).Format("2006-01-02T15:04:05Z")
				pl.old = true
			case 3:
				e.CreationTime = now.Add(-72 * time.Hour).Format("2006-01-02T15:04:05Z")
				pl.old = true
			case 4:
				e.CreationTime = "yesterday"
			}
			kind := rng.Intn(4)
			switch kind {
			case 0:
				e.Type, e.Status = "Secondary", "Available"
				pl.reapable = true
			case 1:
				e.Type, e.Status, e.InstanceID, e.TrunkID = "Member", "InUse", "i-1", "eni-trunk"
				pl.reapable = true
			case 2:
				e.Type, e.Status, e.InstanceID = "Secondary", "InUse", "i-2"
			case 3:
				e.Type, e.Status, e.InstanceID = "Trunk", "InUse", "i-2"
			}
			if rng.Intn(3) == 0 {
				pl.ref = true
				refs = append(refs, v1beta1.Allocation{ENI: v1beta1.ENI{ID: e.ID}})
			}
			cc.InjectENI(e)
			plans = append(plans, pl)
			c.R.DistinctKey(fmt.Sprintf("eni/tag%d/age%d/kind%d/ref%v", tagKind, ageKind, kind, pl.ref))
		}
	})
	for i := 0; i < len(refs); i += 2 {
		rec := &v1beta1.PodENI{ObjectMeta: metav1.ObjectMeta{Name: fmt.Sprintf("ref%d", i), Namespace: "ns"}}
		rec.Spec.Allocations = refs[i:min(i+2, len(refs))]
		if err := h.cl.Create(context.Background(), rec); err != nil {
			c.R.Inconclusive("cannot create record: " + err.Error())
			return
		}
	}
	before := h.cloud.Snapshot()
	if hid%3 == 0 {
		// the collector cannot list the records in this pass: it knows of no reference, and must not act on that
		h.apiMu.Lock()
		h.listFlt = 2
		h.apiMu.Unlock()
		c.R.Count("directed_interface_cases_with_failed_record_list", 1)
	}
	h.gcInterfaces()
	h.apiMu.Lock()
	h.listFlt = 0
	h.apiMu.Unlock()
	after := h.cloud.Snapshot()
	for _, pl := range plans {
		b, a := before.ENIs[pl.id], after.ENIs[pl.id]
		touched := a.Deleted != b.Deleted || a.Status != b.Status
		if pl.ours && pl.old && !pl.ref && pl.reapable {
			if touched {
				c.R.Count("stale_own_unreferenced_interfaces_reaped", 1)
			} else {
				c.R.Count("stale_own_unreferenced_interfaces_left", 1)
			}
		} else if touched {
			// the call-time guard has already reported it with the reason; keep a second, state-based witness
			h.mon.mu.Lock()
			h.mon.violate("C11", "C11.gc-changed-protected-interface", fmt.Sprintf("ours=%v/old=%v/ref=%v", pl.ours, pl.old, pl.ref), fmt.Sprintf("interface %s (own tags %v, older than grace %v, referenced %v) went from %s/deleted=%v to %s/deleted=%v during a collector pass", pl.id, pl.ours, pl.old, pl.ref, b.Status, b.Deleted, a.Status, a.Deleted))
			h.mon.mu.Unlock()
		} else {
			c.R.Count("protected_interfaces_untouched", 1)
		}
	}
	c.R.Eval(1)
	c.R.Count("directed_interface_cases", 1)
}

// c11ScriptTTLAcrossReturn: TTL 48h; away for `first`, back, away for 20h (so that both absences together exceed
// the TTL and neither alone does): every collector pass on the way must keep the record.
func c11ScriptTTLAcrossReturn(h *peHist, first time.Duration) {
	leave := func() {
		h.mon.mu.Lock()
		p := h.mon.cur["p0"]
		h.mon.mu.Unlock()
		h.remove(p)
		for i := 0; i < 3; i++ {
			h.deliverPod("p0")
			h.deliverENI("p0")
		}
	}
	arrive := func() {
		h.createPod("p0")
		for i := 0; i < 3; i++ {
			h.deliverPod("p0")
			h.deliverENI("p0")
		}
	}
	arrive()
	leave()
	h.elapse(first)
	h.gcRecords()
	arrive()
	leave()
	h.elapse(20 * time.Hour)
	h.gcRecords()
	for i := 0; i < 2; i++ {
		h.deliverENI("p0")
	}
	h.mon.mu.Lock()
	if rec := h.mon.recs["p0"]; rec == nil {
		h.mon.violate("C11", "C11.fixed-record-released", "ttl-not-elapsed/gone", "record p0 (TTL 48h) is gone 20h after its pod left for the second time")
	} else {
		h.mon.r.Count("ttl_records_kept_across_return", 1)
	}
	h.mon.mu.Unlock()
}

func c11ScriptReturnDuringGC(h *peHist, at string) {
	h.walking = true
	defer func() { h.walking = false }()
	h.createPod("p0")
	h.deliverPod("p0")
	h.deliverENI("p0")
	h.mon.mu.Lock()
	p := h.mon.cur["p0"]
	h.mon.mu.Unlock()
	h.remove(p)
	for i := 0; i < 2; i++ { // detaching -> unbound
		h.deliverPod("p0")
		h.deliverENI("p0")
	}
	h.scriptedAt = at
	h.scripted = func() {
		h.createPod("p0")
		for i := 0; i < 3; i++ {
			h.deliverPod("p0")
			h.deliverENI("p0")
		}
	}
	h.gcRecords()
	h.scripted = nil
	for i := 0; i < 4; i++ {
		h.deliverENI("p0")
		h.deliverPod("p0")
	}
}
