package main

// C08 — cluster IPAM respects quotas, converges and rolls back failed ENI creation.
//
// Monitors (ipam.go + this file):
//   - call-time quota guard on every CreateNetworkInterface / Assign* the controller issues (ipamMon.OnInvoke);
//   - after every history: faults stop, pending teardowns are completed, a full synchronisation is forced and
//     the controller is reconciled until two consecutive rounds issue no cloud mutation and leave the record
//     unchanged (bounded: 40 rounds). At that fixed point: record == cloud (interfaces and addresses), nothing
//     the controller created is left outside the record, every eligible pod has its address(es), idle
//     addresses are inside the min/max band wherever the limits leave room.
//   - single-fault enumeration: one scripted arrival/departure scenario, every position of the cloud call
//     sequence x every fault kind, and every position of the Node-record write sequence x {conflict, lost}.

import (
	"fmt"
	"math/rand"
	"os"
	"reflect"
	"sort"
	"time"

	"verifharness/cloudsim"

	"github.com/AliyunContainerService/terway/pkg/vswitch"

	"github.com/go-logr/logr/funcr"
	logf "sigs.k8s.io/controller-runtime/pkg/log"

	v1beta1 "github.com/AliyunContainerService/terway/pkg/apis/network.alibabacloud.com/v1beta1"
)

func init() {
	register("C08", &checkDef{level: "exploration", fn: runC08, race: ipamRace, netns: true,
		batches:  func(th bool) int { return map[bool]int{false: 4, true: 16}[th] },
		parallel: func(bool) int { return 4 },
		timeout: func(th bool) time.Duration {
			return map[bool]time.Duration{false: 25 * time.Minute, true: 100 * time.Minute}[th]
		},
	})
}

var c08Kinds = []cloudsim.FaultKind{cloudsim.FaultErrBefore, cloudsim.FaultErrAfter, cloudsim.FaultPartial, cloudsim.FaultQuotaENI, cloudsim.FaultVSwExhaust, cloudsim.FaultQuotaIP, cloudsim.FaultHalfCreated}

type c08Case struct {
	dual  bool
	trunk bool
	pos   int
	kind  cloudsim.FaultKind
	kind2 cloudsim.FaultKind // second fault at pos+1 (a failing rollback right after a failing step)
	api   string             // "" cloud fault; "conflict" / "lost": Node record write fault at position pos
}

func c08ScriptCfg(dual, trunk bool) ipamCfg {
	return ipamCfg{V4: true, V6: dual, Trunk: trunk, Adapters: 4, V4Per: 3, V6Per: 3, MinPool: 1, MaxPool: 2, Pods: 7, Steps: 0, Initial: "empty", VSWFree: 5000}
}

// c08Script: 7 pods arrive (needs three interfaces: create + assign + create ...), 3 leave, 1 arrives.
func c08Script(h *ipamHist) {
	var pods []*ipamPod
	for i := 0; i < 5; i++ {
		p := h.newPod(i, false)
		h.writePod(p)
		pods = append(pods, p)
	}
	for i := 0; i < 5; i++ {
		_, _ = h.reconcile()
	}
	for _, p := range pods[:3] {
		h.cniAdd(p)
	}
	for i := 5; i < 7; i++ {
		p := h.newPod(i, false)
		h.writePod(p)
		pods = append(pods, p)
	}
	for i := 0; i < 4; i++ {
		_, _ = h.reconcile()
	}
	for _, p := range pods[1:4] {
		if p.Sandbox {
			h.cniDel(p, p.Container)
		}
		h.flush()
		h.deletePodObj(p)
	}
	for i := 0; i < 4; i++ {
		_, _ = h.reconcile()
	}
}

type c08DirectedCase struct {
	name string
	cfg  ipamCfg
	run  func(h *ipamHist)
}

// c08Directed: configuration corners the thorough tier's random histories ran into, made certain.
func c08Directed() []c08DirectedCase {
	var out []c08DirectedCase
	// an RDMA pod came and went: its interface keeps idle addresses no normal pod can use, and the band has no slack
	for _, dual := range []bool{false, true} {
		for _, mm := range [][2]int{{2, 2}, {1, 1}, {3, 4}} {
			out = append(out, c08DirectedCase{
				name: fmt.Sprintf("erdma-idle/dual%v/min%d-max%d", dual, mm[0], mm[1]),
				cfg:  ipamCfg{V4: true, V6: dual, ERDMA: true, Adapters: 5, V4Per: 5, V6Per: 5, MinPool: mm[0], MaxPool: mm[1], Pods: 6, Initial: "empty", VSWFree: 5000},
				run: func(h *ipamHist) {
					var pods []*ipamPod
					for i := 0; i < 4; i++ {
						p := h.newPod(i, i >= 2)
						h.writePod(p)
						pods = append(pods, p)
					}
					for i := 0; i < 6; i++ {
						_, _ = h.reconcile()
					}
					for _, p := range pods {
						h.cniAdd(p)
						if p.Sandbox {
							h.writePod(p)
						}
					}
					for _, p := range pods[2:] {
						if p.Sandbox {
							h.cniDel(p, p.Container)
						}
						h.flush()
						h.deletePodObj(p)
					}
					for i := 0; i < 4; i++ {
						_, _ = h.reconcile()
					}
				},
			})
		}
	}
	// every slot taken, one trunk more than the flavor has, an RDMA pod waits: there is no room for its interface
	for _, dual := range []bool{false, true} {
		out = append(out, c08DirectedCase{
			name: fmt.Sprintf("surplus-trunk/dual%v", dual),
			cfg:  ipamCfg{V4: true, V6: dual, Trunk: true, ERDMA: true, Adapters: 5, V4Per: 4, V6Per: 4, MinPool: 0, MaxPool: 3, Pods: 4, Initial: "surplus-trunk", VSWFree: 5000},
			run: func(h *ipamHist) {
				for i := 0; i < 3; i++ {
					h.writePod(h.newPod(i, i == 0))
				}
				for i := 0; i < 5; i++ {
					_, _ = h.reconcile()
				}
			},
		})
	}
	return out
}

func runC08(c *ctxT) {
	r := c.R
	r.Rule = "Closed-loop IPAM histories (real multi-ip ReconcileNode + real agent on simulated API server and cloud). (1) call-time guard: no CreateNetworkInterface beyond the interface slots the flavor leaves, no create/assign beyond the per-interface address limits (judged against the smaller of cloud truth and stored record, so that a lost status write or out-of-band drift is not blamed on the controller). (2) after each history faults stop, a full sync is forced and the controller must reach, within 40 reconciles, two consecutive rounds without cloud mutation and without record change; there record == cloud for interfaces and addresses, no interface the controller created (and learned the id of) is outside the record, every eligible pod is bound in every enabled family on one interface, idle addresses are within [min,max] wherever limits leave room. (3) single-fault enumeration of a scripted scenario: every cloud-call position x 7 fault kinds, adjacent double faults (step fails and so does the call after it) at every position, every Node-record write position x {conflict, lost}, for IPv4 / dual-stack x trunk. distinct = config class x fault placement"
	r.Assumptions = []string{"cloud simulated at the register.Interface boundary (above SDK retries): a create that fails after its effect without returning the id cannot be rolled back by the controller and is not counted as a leak", "bounded convergence: 40 reconciles after faults stop", "pods that already report an address that is gone, and pods holding one family while waiting for the other on a full interface, are counted, not judged"}

	only := -1
	if v := os.Getenv("VERIF_ONLY_HISTORY"); v != "" {
		fmt.Sscan(v, &only)
		logf.SetLogger(funcr.New(func(prefix, args string) { fmt.Println("LOG", prefix, args) }, funcr.Options{Verbosity: 5}))
	}
	// ---- (3) enumeration ----
	var cases []c08Case
	for _, dual := range []bool{false, true} {
		for _, trunk := range []bool{false, true} {
			if trunk && !c.Thorough && dual {
				continue
			}
			// learn the length of the fault-free call and write sequences
			base := newIpamHist(c, "C08", -1, c08ScriptCfg(dual, trunk), 1)
			c08Script(base)
			k := base.cloud.MutatingCalls()
			base.mon.mu.Lock()
			w := base.mon.crWrites
			base.mon.mu.Unlock()
			r.Max("script_cloud_calls", int64(k))
			r.Max("script_record_writes", int64(w))
			for pos := 1; pos <= k+2; pos++ {
				for _, kind := range c08Kinds {
					cases = append(cases, c08Case{dual: dual, trunk: trunk, pos: pos, kind: kind})
				}
			}
			// adjacent double faults: the step fails and so does the call that follows it (its rollback)
			for pos := 1; pos <= k+1; pos++ {
				for _, k1 := range []cloudsim.FaultKind{cloudsim.FaultErrBefore, cloudsim.FaultQuotaENI, cloudsim.FaultErrAfter} {
					cases = append(cases, c08Case{dual: dual, trunk: trunk, pos: pos, kind: k1, kind2: cloudsim.FaultErrBefore})
				}
			}
			for pos := 1; pos <= w+1; pos++ {
				cases = append(cases, c08Case{dual: dual, trunk: trunk, pos: pos, api: "conflict"}, c08Case{dual: dual, trunk: trunk, pos: pos, api: "lost"},
					// the write is refused and the full sync it makes the controller owe fails at its first step
					c08Case{dual: dual, trunk: trunk, pos: pos, api: "conflict+describe"})
			}
		}
	}
	sem := make(chan struct{}, 64)
	done := make(chan struct{}, len(cases))
	mine := 0
	for i, cs := range cases {
		if i%max(c.NBatch, 1) != c.Batch || (only >= 0 && 900000+i != only) {
			continue
		}
		mine++
		sem <- struct{}{}
		go func(i int, cs c08Case) {
			defer func() { <-sem; done <- struct{}{} }()
			cfg := c08ScriptCfg(cs.dual, cs.trunk)
			if cs.api == "" {
				cfg.Faults = map[int]cloudsim.Fault{cs.pos: {Kind: cs.kind}}
				if cs.kind2 != "" {
					cfg.Faults[cs.pos+1] = cloudsim.Fault{Kind: cs.kind2}
				}
			}
			hid := 900000 + i
			fmt.Printf("CASE C08 enum %d %+v\n", hid, cs)
			h := newIpamHist(c, "C08", hid, cfg, int64(1000+i))
			if cs.api != "" {
				h.apiMu.Lock()
				h.apiAt = map[string]int{"node": cs.pos}
				h.apiAtKind = cs.api
				h.apiMu.Unlock()
			}
			c08Script(h)
			c08Converge(h)
			r.Eval(1)
			r.Count("enumerated_single_fault_cases", 1)
			what := string(cs.kind)
			if cs.kind2 != "" {
				what += "+" + string(cs.kind2)
			}
			if cs.api != "" {
				what = "record-write-" + cs.api
			}
			r.DistinctKey(fmt.Sprintf("enum/dual%v/trunk%v/%s/pos%d", cs.dual, cs.trunk, what, cs.pos))
			h.finish(r, true)
		}(i, cs)
	}
	for i := 0; i < mine; i++ {
		<-done
	}

	// ---- directed configuration corners (fault-free) ----
	for i, dc := range c08Directed() {
		if i%max(c.NBatch, 1) != c.Batch || (only >= 0 && 950000+i != only) {
			continue
		}
		hid := 950000 + i
		fmt.Printf("CASE C08 directed %d %s cfg %+v\n", hid, dc.name, dc.cfg)
		h := newIpamHist(c, "C08", hid, dc.cfg, int64(5000+i))
		dc.run(h)
		c08Converge(h)
		r.Eval(1)
		r.Count("directed_corner_cases", 1)
		r.DistinctKey("directed/" + dc.name)
		h.finish(r, true)
	}

	// ---- (1)+(2) random histories ----
	n := 90
	if c.Thorough {
		n = 350
	}
	runIpamHistories(c, "C08", n, 80, func(i int, rng *rand.Rand) ipamCfg {
		cfg := genIpamCfg(rng)
		cfg.APIFaults = rng.Intn(2) == 0
		if rng.Intn(3) != 0 {
			cfg.Faults = genFaults(rng, 1+rng.Intn(4), 30)
			for k, f := range cfg.Faults {
				f.DelayA, f.DelayB = 0, 0
				cfg.Faults[k] = f
			}
		}
		if rng.Intn(5) == 0 {
			cfg.VSWFree = int64(3 + rng.Intn(20)) // the first vSwitch runs dry, the second has room
		}
		return cfg
	}, func(h *ipamHist) {
		ipamRandomWalk(h)
		c08Converge(h)
	})
}

type c08View struct {
	rec   map[string]*v1beta1.NetworkInterface
	cloud map[string]cloudsim.CENI
}

func c08RecSig(cr *v1beta1.Node) any {
	if cr == nil {
		return nil
	}
	return cr.Status.NetworkInterfaces
}

// c08Converge: stop faults, finish teardowns, force a full sync, reconcile to a fixed point and judge it.
func c08Converge(h *ipamHist) {
	m := h.mon
	h.cloud.StopFaults()
	h.apiMu.Lock()
	h.apiFlt = map[string]int{}
	h.apiAt = nil
	h.apiMu.Unlock()
	// departures complete: DEL processed and reported for every pod that is gone
	m.mu.Lock()
	var gone []*ipamPod
	for _, p := range m.byUID {
		if !p.Exists && p.Sandbox {
			gone = append(gone, p)
		}
	}
	m.mu.Unlock()
	sortPods(gone)
	for _, p := range gone {
		h.cniDel(p, p.Container)
	}
	h.flush()
	// pods that vanished without ever getting a sandbox: the agent's own collection reports them
	_ = h.agent.VerifSyncDeletedPods(ctxBG())
	h.agentGC(0)
	h.flush()
	// time passes: the vSwitch cache and its block marks (10 min TTL) expire. Modelled by a controller
	// restart with a fresh vSwitch pool, which is what expiry amounts to.
	h.vsw, _ = vswitch.NewSwitchPool(100, "10m")
	m.mu.Lock()
	m.vswFull = nil
	m.mu.Unlock()
	h.restartController()
	_, _ = h.reconcile() // (creates the restarted controller's per-node state, which the forced sync flags)
	h.ctl.VerifForceSync("node-1")

	// a fresh dual-stack pod picks its IPv4 in map order and rolls it back when that interface has no IPv6:
	// a quiet round with such a pod still waiting is not a fixed point yet (the next round may pick the pair)
	waitingFresh := func() int {
		m.mu.Lock()
		defer m.mu.Unlock()
		if m.lastCR == nil {
			return 0
		}
		bound := map[string]int{}
		for _, e := range m.lastCR.Status.NetworkInterfaces {
			for _, set := range []map[string]*v1beta1.IP{e.IPv4, e.IPv6} {
				for _, v := range set {
					if v.PodID != "" {
						bound[v.PodID]++
					}
				}
			}
		}
		want := 0
		if h.cfg.V4 {
			want++
		}
		if h.cfg.V6 {
			want++
		}
		n := 0
		for id, p := range m.pods {
			if p.Exists && !p.Exited && p.Skip == "" && p.RepV4 == "" && p.RepV6 == "" && bound[id] < want {
				n++
			}
		}
		return n
	}
	unpairedOf := func(cr *v1beta1.Node) int {
		unpaired := 0
		if cr == nil {
			return 0
		}
		for _, e := range cr.Status.NetworkInterfaces {
			if e.Status != "InUse" {
				continue
			}
			i4, i6 := 0, 0
			for _, v := range e.IPv4 {
				if v.PodID == "" && v.Status == v1beta1.IPStatusValid {
					i4++
				}
			}
			for _, v := range e.IPv6 {
				if v.PodID == "" && v.Status == v1beta1.IPStatusValid {
					i6++
				}
			}
			if i4 != i6 {
				unpaired++
			}
		}
		return unpaired
	}
	// dryStuck (mu held): dual stack, and an interface on a vSwitch that has run dry (the cloud said so to the controller
	// in this phase, or it has no address left) holds idle addresses of one family without partners, or addresses
	// bound to a pod in one family only: nothing on that interface can be paired, and the pool's per-family totals
	// do not see it
	dryStuck := func() bool {
		if !(h.cfg.V4 && h.cfg.V6) || m.lastCR == nil {
			return false
		}
		dry := map[string]bool{}
		for id := range m.vswFull {
			dry[id] = true
		}
		for id, free := range h.cloud.VSWFree() {
			if free <= 0 {
				dry[id] = true
			}
		}
		for _, e := range m.lastCR.Status.NetworkInterfaces {
			if e.Status != "InUse" || !dry[e.VSwitchID] {
				continue
			}
			i4, i6 := 0, 0
			b4, b6 := map[string]bool{}, map[string]bool{}
			for _, v := range e.IPv4 {
				if v.Status != v1beta1.IPStatusValid {
					continue
				}
				if v.PodID == "" {
					i4++
				} else {
					b4[v.PodID] = true
				}
			}
			for _, v := range e.IPv6 {
				if v.Status != v1beta1.IPStatusValid {
					continue
				}
				if v.PodID == "" {
					i6++
				} else {
					b6[v.PodID] = true
				}
			}
			if i4 != i6 {
				return true
			}
			for p := range b4 {
				if !b6[p] {
					return true
				}
			}
			for p := range b6 {
				if !b4[p] {
					return true
				}
			}
		}
		return false
	}
	// halfBound (mu held): dual stack, and some pod is bound in one family only (a record taken over from a single-stack
	// past): the partner must come from the same interface, the pool adds pairs wherever there is room
	halfBound := func() bool {
		if !(h.cfg.V4 && h.cfg.V6) || m.lastCR == nil {
			return false
		}
		b4, b6 := map[string]bool{}, map[string]bool{}
		for _, e := range m.lastCR.Status.NetworkInterfaces {
			for _, v := range e.IPv4 {
				if v.PodID != "" {
					b4[v.PodID] = true
				}
			}
			for _, v := range e.IPv6 {
				if v.PodID != "" {
					b6[v.PodID] = true
				}
			}
		}
		for p := range b4 {
			if !b6[p] {
				return true
			}
		}
		for p := range b6 {
			if !b4[p] {
				return true
			}
		}
		return false
	}
	var unpairedHist []int
	dryHist, halfHist := false, 0
	stable, rounds := 0, 0
	for rounds < 40 && (stable < 2 || waitingFresh() > 0) {
		calls := h.cloud.MutatingCalls()
		m.mu.Lock()
		before := c08RecSig(m.lastCR)
		m.mu.Unlock()
		_, _ = h.reconcile()
		rounds++
		m.mu.Lock()
		after := c08RecSig(m.lastCR)
		unpairedHist = append(unpairedHist, unpairedOf(m.lastCR))
		dryHist = dryHist || dryStuck()
		if halfBound() {
			halfHist++
		}
		m.mu.Unlock()
		if h.cloud.MutatingCalls() == calls && reflect.DeepEqual(before, after) {
			stable++
		} else {
			stable = 0
		}
	}
	m.r.Max("rounds_to_fixed_point_max", int64(rounds))
	if stable < 2 {
		m.mu.Lock()
		site := "40-rounds"
		// structural signature of one known family of causes: dual stack, and some interface holds idle addresses
		// of one family without partners of the other (an idle primary IPv4 without IPv6, idle IPv4 on an
		// interface whose vSwitch is exhausted, ...). The pool sizes by per-family totals, a dual-stack pod needs
		// a pair on one interface: what MinPoolSize/waiting pods ask for and what MaxPoolSize trims can then
		// disagree forever. Oscillations without that signature are reported under the plain site.
		// (judged over all rounds after the faults stopped: the oscillation passes through states with and without such addresses)
		if h.cfg.V4 && h.cfg.V6 {
			for _, u := range unpairedHist {
				if u > 0 {
					site = "40-rounds/dual-stack/unpaired-idle"
				}
			}
			if site == "40-rounds" && dryHist {
				site = "40-rounds/dual-stack/vswitch-dry"
			}
			if site == "40-rounds" && halfHist == len(unpairedHist) && halfHist > 0 {
				site = "40-rounds/dual-stack/half-bound" // in every round after the faults stopped
			}
		}
		m.violate("C08", "C08.no-fixed-point", site, fmt.Sprintf("after faults stopped the controller still mutates cloud or record in round %d (config %+v)", rounds, h.cfg))
		m.mu.Unlock()
		return
	}
	// one more full synchronisation at the fixed point: it must find nothing to repair
	h.ctl.VerifForceSync("node-1")
	calls := h.cloud.MutatingCalls()
	m.mu.Lock()
	before := c08RecSig(m.lastCR)
	m.mu.Unlock()
	_, _ = h.reconcile()
	_, _ = h.reconcile()
	m.mu.Lock()
	defer m.mu.Unlock()
	if h.cloud.MutatingCalls() != calls || !reflect.DeepEqual(before, c08RecSig(m.lastCR)) {
		m.violate("C08", "C08.fixed-point-unstable", "after-full-sync", "a full synchronisation at the fixed point changed cloud or record: record and cloud had diverged")
	}
	m.r.Count("fixed_points_judged", 1)
	if m.lastCR == nil {
		return
	}
	rec := m.lastCR.Status.NetworkInterfaces
	snap := h.cloud.Snapshot()

	// ---- record == cloud ----
	for id, e := range snap.ENIs {
		if e.Deleted || e.Type == "Member" || e.Type == "Primary" {
			continue
		}
		onNode := e.InstanceID == "i-1" && e.Status != "Available"
		re := rec[id]
		switch {
		case onNode && re == nil:
			m.violate("C08", "C08.record-cloud-disagree", "attached-interface-not-recorded", fmt.Sprintf("%s (%s) is attached to the node but absent from the record after a full sync", id, e.Status))
		case !onNode && m.createdOK[id] && re == nil:
			site := "created-not-recorded"
			if m.delFailed[id] && m.writeLost[id] {
				// attach failed, the rollback delete failed, and the status write that would have recorded the
				// interface for deletion failed too: three faults in a row, its own site
				site += "/delete-failed+record-write-failed"
			}
			m.violate("C08", "C08.leaked-interface", site, fmt.Sprintf("%s was created by the controller (id returned), is %s in the cloud, and is neither deleted nor recorded for deletion", id, e.Status))
		case !onNode && re != nil:
			m.violate("C08", "C08.record-cloud-disagree", "recorded-interface-not-attached", fmt.Sprintf("%s is recorded (%s) but not attached in the cloud (%s)", id, re.Status, e.Status))
		}
		if re == nil || !onNode {
			continue
		}
		for fam, pair := range map[string]struct {
			r map[string]*v1beta1.IP
			c []string
		}{"v4": {re.IPv4, e.V4}, "v6": {re.IPv6, e.V6}} {
			cs := map[string]bool{}
			for _, a := range pair.c {
				cs[a] = true
				if pair.r[a] == nil {
					m.violate("C08", "C08.record-cloud-disagree", "cloud-address-not-recorded/"+fam, fmt.Sprintf("%s has %s in the cloud, the record does not list it after a full sync", id, a))
				}
			}
			for a, v := range pair.r {
				if !cs[a] {
					m.violate("C08", "C08.record-cloud-disagree", "recorded-address-not-in-cloud/"+fam, fmt.Sprintf("record lists %s (%s) on %s, the cloud does not have it", a, v.Status, id))
				}
				if v.Status != v1beta1.IPStatusValid {
					m.violate("C08", "C08.record-cloud-disagree", "address-stuck-"+string(v.Status)+"/"+fam, fmt.Sprintf("%s on %s is still %s at the fixed point", a, id, v.Status))
				}
			}
		}
		if re.Status != "InUse" {
			m.violate("C08", "C08.record-cloud-disagree", "interface-stuck-"+re.Status, fmt.Sprintf("%s is still %s in the record at the fixed point", id, re.Status))
		}
	}
	for id, re := range rec {
		if e, ok := snap.ENIs[id]; !ok || e.Deleted {
			m.violate("C08", "C08.record-cloud-disagree", "recorded-interface-gone", fmt.Sprintf("%s is recorded (%s) but does not exist in the cloud", id, re.Status))
		}
	}

	// ---- capacity, independent of getEniOptions ----
	cfg := h.cfg
	slots := cfg.Adapters - 1
	attached, std, trunkN, rdmaN := 0, 0, 0, 0
	for _, e := range snap.ENIs {
		if e.Deleted || e.InstanceID != "i-1" || e.Status == "Available" || e.Type == "Member" || e.Type == "Primary" {
			continue
		}
		attached++
		switch {
		case e.Type == "Trunk":
			trunkN++
		case e.TrafficMode == "HighPerformance":
			rdmaN++
		default:
			std++
		}
	}
	stdQuota := slots
	if cfg.Trunk {
		stdQuota--
	}
	if cfg.ERDMA {
		stdQuota--
	}
	freeStd := max(0, min(stdQuota-std, slots-attached))
	freeTrunk := 0
	if cfg.Trunk && trunkN == 0 && slots-attached-freeStd > 0 {
		freeTrunk = 1
	}
	freeRdma := 0
	if cfg.ERDMA && rdmaN == 0 && slots-attached-freeStd-freeTrunk > 0 {
		freeRdma = 1
	}
	fams := []string{}
	if cfg.V4 {
		fams = append(fams, "v4")
	}
	if cfg.V6 {
		fams = append(fams, "v6")
	}
	setOf := func(e *v1beta1.NetworkInterface, fam string) map[string]*v1beta1.IP {
		if fam == "v4" {
			return e.IPv4
		}
		return e.IPv6
	}
	per := func(fam string) int {
		if fam == "v4" {
			return cfg.V4Per
		}
		return cfg.V6Per
	}
	isRdma := func(e *v1beta1.NetworkInterface) bool {
		return e.NetworkInterfaceTrafficMode == v1beta1.NetworkInterfaceTrafficModeHighPerformance
	}

	// ---- every eligible pod has its address(es) ----
	boundOf := func(podID, fam string) (string, string) {
		for id, e := range rec {
			for ip, v := range setOf(e, fam) {
				if v.PodID == podID {
					return id, ip
				}
			}
		}
		return "", ""
	}
	var pods []*ipamPod
	for _, p := range m.pods {
		pods = append(pods, p)
	}
	sort.Slice(pods, func(i, j int) bool { return pods[i].Name < pods[j].Name })
	normalDemand, rdmaDemand := 0, 0
	var waiting []*ipamPod
	for _, p := range pods {
		if !p.Exists || p.Skip != "" || p.Exited {
			continue
		}
		rd := p.RDMA && cfg.ERDMA
		if rd {
			rdmaDemand++
		} else {
			normalDemand++
		}
		n := 0
		for _, fam := range fams {
			if id, _ := boundOf("ns/"+p.Name, fam); id != "" {
				n++
			}
		}
		if n == len(fams) {
			m.r.Count("pods_bound_at_fixed_point", 1)
			continue
		}
		stale := false
		for fam, rep := range map[string]string{"v4": p.RepV4, "v6": p.RepV6} {
			if rep == "" {
				continue
			}
			if _, ip := boundOf("ns/"+p.Name, fam); ip != rep {
				stale = true // the pod reports an address it can no longer be given: it has to be recreated
			}
		}
		if stale || n > 0 {
			m.r.Count("pods_not_judged_stale_or_half_bound", 1)
			continue
		}
		waiting = append(waiting, p)
	}
	vswFree := map[string]int64{}
	h.cloud.Mutate(func(c *cloudsim.CtrlCloud) {
		for id, v := range c.VSWs {
			vswFree[id] = v.Free
		}
	})
	canGrow := func(e *v1beta1.NetworkInterface) bool { return vswFree[e.VSwitchID] >= int64(2*cfg.V4Per) }
	normalCap, rdmaCap := (freeStd+freeTrunk)*cfg.V4Per, freeRdma*cfg.V4Per
	for _, e := range rec {
		if e.Status != "InUse" {
			continue
		}
		c := cfg.V4Per
		if !canGrow(e) {
			c = len(setOf(e, fams[0])) // an interface on an exhausted vSwitch holds what it holds
			if len(fams) == 2 {
				c = min(c, len(setOf(e, fams[1])))
			}
		}
		if isRdma(e) && cfg.ERDMA {
			rdmaCap += c
		} else {
			normalCap += c
		}
	}
	// addresses still held for pods that are gone but whose teardown is not reported (C03) are not capacity
	for _, e := range rec {
		held := 0
		for _, v := range setOf(e, fams[0]) {
			if q := m.pods[v.PodID]; v.PodID != "" && (q == nil || !q.Exists || (v.PodUID != "" && q.UID != v.PodUID)) {
				held++
			}
		}
		if isRdma(e) && cfg.ERDMA {
			rdmaCap -= held
		} else {
			normalCap -= held
		}
	}
	for _, p := range waiting {
		rd := p.RDMA && cfg.ERDMA
		if (rd && rdmaDemand > rdmaCap) || (!rd && normalDemand > normalCap) {
			m.r.Count("pods_waiting_beyond_capacity_not_judged", 1)
			continue
		}
		site := fmt.Sprintf("rdma=%v", rd)
		if dryStuck() {
			// the fixed-point face of the same dual-stack weakness
			site += "/dual-stack/vswitch-dry"
		}
		m.violate("C08", "C08.pod-without-address", site, fmt.Sprintf("pod %s exists, is eligible and has no address at the fixed point although capacity suffices (normal demand %d / capacity %d, rdma demand %d / capacity %d)", p.Name, normalDemand, normalCap, rdmaDemand, rdmaCap))
	}

	// ---- pool band ----
	// On a node with ERDMA the product has two notions of "idle": adjustPool counts every idle address, addIP keeps
	// MinPoolSize on the interfaces normal pods can use. The property names one band, so each side is judged only
	// where both notions agree: above-max on the addresses normal pods can use (then all idle exceed it too),
	// below-min on all idle addresses (then the usable ones fall short too).
	main := fams[0]
	idleMain, trimmable := 0, 0
	for _, e := range rec {
		if e.Status != "InUse" || (isRdma(e) && cfg.ERDMA) {
			continue
		}
		for _, v := range setOf(e, main) {
			if v.PodID == "" && v.Status == v1beta1.IPStatusValid {
				idleMain++
				if !v.Primary {
					trimmable++
				}
			}
		}
	}
	if idleMain > cfg.MaxPool && trimmable > 0 {
		m.violate("C08", "C08.pool-band", "above-max", fmt.Sprintf("%d idle %s addresses at the fixed point, MaxPoolSize %d, %d of them could be released", idleMain, main, cfg.MaxPool, trimmable))
	}
	for _, fam := range fams {
		idle, room := 0, freeStd+freeTrunk > 0
		for _, e := range rec {
			if e.Status != "InUse" {
				continue
			}
			for _, v := range setOf(e, fam) {
				if v.PodID == "" && v.Status == v1beta1.IPStatusValid {
					idle++
				}
			}
			if isRdma(e) && cfg.ERDMA {
				continue
			}
			if len(setOf(e, fam)) < per(fam) && canGrow(e) {
				room = true
			}
		}
		if idle < cfg.MinPool && room && cfg.MinPool <= cfg.MaxPool {
			m.violate("C08", "C08.pool-band", "below-min/"+fam, fmt.Sprintf("%d idle %s addresses at the fixed point, MinPoolSize %d, and the limits leave room for more", idle, fam, cfg.MinPool))
		}
		m.r.Count("band_checks", 1)
	}
}
