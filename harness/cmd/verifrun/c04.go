package main

// C04 — stale, duplicate and concurrent CNI requests are harmless.
// Real networkService driven at the rpc.TerwayBackendServer interface; per-pod histories are
// checked with porcupine against the sequential sandbox model; online guards for 'processing'
// answers, the C01 interval ledger over RPC replies, and record/pool agreement at quiescence.

import (
	"context"
	"fmt"
	"math/rand"
	"net/netip"
	"sort"
	"strings"
	"sync"
	"time"

	"github.com/anishathalye/porcupine"
	"sigs.k8s.io/controller-runtime/pkg/client"

	"github.com/AliyunContainerService/terway/pkg/eni"
	"github.com/AliyunContainerService/terway/types"
	tdaemon "github.com/AliyunContainerService/terway/types/daemon"

	"verifharness/apisim"
)

func init() {
	register("C04", &checkDef{level: "exploration", fn: runC04, race: func(rep string) (string, bool) {
		if strings.Contains(rep, "terway/daemon.") || strings.Contains(rep, "pkg/eni.") || strings.Contains(rep, "pkg/storage.") {
			return "daemon-state", true
		}
		return "", false
	},
		batches:  func(th bool) int { return map[bool]int{false: 4, true: 20}[th] },
		parallel: func(th bool) int { return 4 },
		timeout: func(th bool) time.Duration {
			return map[bool]time.Duration{false: 20 * time.Minute, true: 90 * time.Minute}[th]
		},
	})
}

type c04In struct {
	Kind      string
	Container string
	Sticky    bool
}
type c04Out struct {
	OK     bool
	V4, V6 string
}

type c04State struct {
	Has    bool
	C      string
	V4, V6 string
}

var c04Model = porcupine.Model{
	Init: func() any { return c04State{} },
	Step: func(st, in, out any) (bool, any) {
		s, i, o := st.(c04State), in.(c04In), out.(c04Out)
		switch i.Kind {
		case "add":
			if !o.OK {
				return true, s
			}
			if s.Has {
				if o.V4 != s.V4 || o.V6 != s.V6 {
					return false, s
				}
				s.C = i.Container
				return true, s
			}
			return true, c04State{Has: true, C: i.Container, V4: o.V4, V6: o.V6}
		case "del":
			if !o.OK {
				return true, s
			}
			if s.Has && s.C == i.Container && !i.Sticky {
				return true, c04State{}
			}
			return true, s
		case "get":
			if !o.OK {
				return true, s
			}
			if s.Has && s.C == i.Container {
				return o.V4 == s.V4 && o.V6 == s.V6, s
			}
			return o.V4 == "" && o.V6 == "", s
		}
		return false, s
	},
	Equal: func(a, b any) bool { return a.(c04State) == b.(c04State) },
	DescribeOperation: func(in, out any) string {
		return fmt.Sprintf("%+v -> %+v", in, out)
	},
}

func addrStr(a interface {
	IsValid() bool
	String() string
}) string {
	if !a.IsValid() {
		return ""
	}
	return a.String()
}

type c04Pod struct {
	mu      sync.Mutex // serialises "primary" operations of the pod (the runtime's own ordering)
	smu     sync.Mutex
	gen     int  // current sandbox generation
	added   bool // ADD(c_gen) acknowledged at least once
	stopped bool // DEL(c_gen) was called at least once
}

func runC04(c *ctxT) {
	r := c.R
	n := 100
	if c.Thorough {
		n = 300
	}
	r.Rule = "one history = one daemon (real networkService + k8s layer on the simulated API server + bolt store + real pool on the simulated cloud); 8..24 client goroutines over 4..12 pods issue ADD / repeated ADD / ADD of a new sandbox / DEL with current, previous and random container ids / GET likewise, with cancellation before the call, during GetPod (API latency), while waiting on the pool and during the store write; sticky (StatefulSet) and ordinary pods. Calls answered 'processing' are removed, the rest of each pod's history must be linearizable against the sandbox model (porcupine). distinct = distinct per-pod operation-shape signatures that contain a stale or concurrent request"
	r.Assumptions = []string{"the runtime issues the primary ADD/DEL of one sandbox sequentially and creates a new sandbox only after DEL of the previous one was issued; stale replays and status queries may arrive at any time", "API server and cloud are simulated"}
	sem := make(chan struct{}, 40)
	var wg sync.WaitGroup
	base := r.Seed*7919 + int64(c.Batch)*1000003
	for i := 0; i < n; i++ {
		wg.Add(1)
		sem <- struct{}{}
		go func(i int) {
			defer wg.Done()
			defer func() { <-sem }()
			c04History(c, c.Batch*100000+i, base+int64(i)*104729)
		}(i)
	}
	wg.Wait()
}

func c04History(c *ctxT, hid int, seed int64) {
	r := c.R
	rng := dRand(seed)
	cfg := genPoolCfg(rng, false)
	cfg.ERDMA, cfg.Trunk, cfg.StrayTrunk, cfg.StrayERDMA = false, false, false, false
	if !cfg.V4 { // the daemon's configuration accepts ipv4 and dual
		cfg.V4 = true
	}
	for i := range cfg.Pre {
		if cfg.Pre[i] < 1 {
			cfg.Pre[i] = 1
		}
	}
	cfg.Drift = false
	cfg.Pods = 4 + rng.Intn(9)
	cfg.Clients = 8 + rng.Intn(17)
	cfg.OpsPerCli = 8 + rng.Intn(10)
	if rng.Intn(3) == 0 {
		cfg.Faults = genFaults(rng, 1+rng.Intn(3), 20)
	}
	fmt.Printf("CASE C04 history %d seed %d cfg %+v\n", hid, seed, cfg)
	d, err := newDHist(c, "C04", hid, cfg, seed, types.IPAMTypeDefault)
	if err != nil {
		r.Inconclusive(fmt.Sprintf("history %d: %v", hid, err))
		return
	}
	defer d.stop()
	for i := 0; i < cfg.Pods; i++ {
		if rng.Intn(4) == 0 {
			d.sticky[fmt.Sprintf("ns/p%d", i)] = true
		}
		d.ensurePod(i, false)
	}
	// latency at the API (GetPod) and at the store
	var lmu sync.Mutex
	lr := dRand(seed ^ 77)
	lat := func(max int) time.Duration {
		lmu.Lock()
		defer lmu.Unlock()
		if lr.Intn(3) == 0 {
			return 0
		}
		return time.Duration(lr.Intn(max)) * time.Microsecond
	}
	d.hooks.Set(func(h *apisim.Hooks) {
		h.BeforeGet = func(ctx context.Context, key client.ObjectKey, obj client.Object) error {
			time.Sleep(lat(15000))
			return nil
		}
	})
	d.db.delay = func() time.Duration { return lat(15000) }
	storeFaults := rng.Intn(4) == 0
	if storeFaults {
		d.db.putErr = func(key string) error {
			lmu.Lock()
			defer lmu.Unlock()
			if lr.Intn(6) == 0 {
				return fmt.Errorf("injected: bolt put failed")
			}
			return nil
		}
	}

	pods := make([]*c04Pod, cfg.Pods)
	for i := range pods {
		pods[i] = &c04Pod{}
	}
	var hmu sync.Mutex
	var hist []rpcResult
	record := func(x rpcResult) {
		hmu.Lock()
		hist = append(hist, x)
		hmu.Unlock()
	}
	mkctx := func(cr *rand.Rand) (context.Context, context.CancelFunc, string) {
		ctx, cancel := context.WithTimeout(d.ctx, time.Duration(1500+cr.Intn(1500))*time.Millisecond)
		where := "none"
		switch cr.Intn(10) {
		case 0:
			cancel()
			where = "before-call"
		case 1:
			time.AfterFunc(time.Duration(200+cr.Intn(2000))*time.Microsecond, cancel)
			where = "during-getpod"
		case 2:
			time.AfterFunc(time.Duration(5+cr.Intn(40))*time.Millisecond, cancel)
			where = "during-store-or-pool"
		case 3:
			time.AfterFunc(time.Duration(300+cr.Intn(300))*time.Millisecond, cancel)
			where = "while-waiting-pool"
		}
		return ctx, cancel, where
	}
	// in a third of the histories addresses (idle or held) vanish from the cloud behind the daemon's back and the
	// periodic metadata sync marks them invalid: a repeated ADD must still return the pod's own address
	stopDrift := make(chan struct{})
	var dw sync.WaitGroup
	if rng.Intn(3) == 0 {
		dseed := rng.Int63()
		d.mon.mu.Lock()
		d.mon.noGoneClause = true
		d.mon.mu.Unlock()
		dw.Add(1)
		go func() {
			defer dw.Done()
			br := dRand(dseed)
			for {
				select {
				case <-stopDrift:
					return
				case <-time.After(time.Duration(15+br.Intn(80)) * time.Millisecond):
				}
				if br.Intn(2) == 0 {
					snap := d.cloud.Snapshot()
					var cands []netip.Addr
					for _, e := range snap.ENIs {
						if e.Deleted {
							continue
						}
						for _, a := range append(append([]netip.Addr{}, e.V4...), e.V6...) {
							if a != e.Primary {
								cands = append(cands, a)
							}
						}
					}
					if len(cands) > 0 {
						sort.Slice(cands, func(i, j int) bool { return cands[i].Less(cands[j]) })
						if a := cands[br.Intn(len(cands))]; d.cloud.RemoveAddress(a) {
							r.Count("addresses_removed_behind_the_daemon", 1)
						}
					}
				}
				d.locals[br.Intn(len(d.locals))].VerifSync()
			}
		}()
	}
	var cw sync.WaitGroup
	for ci := 0; ci < cfg.Clients; ci++ {
		cw.Add(1)
		cs := rng.Int63()
		go func() {
			defer cw.Done()
			cr := dRand(cs)
			for k := 0; k < cfg.OpsPerCli; k++ {
				pi := cr.Intn(cfg.Pods)
				p := pods[pi]
				podKey := fmt.Sprintf("ns/p%d", pi)
				ctx, cancel, where := mkctx(cr)
				if cr.Intn(100) < 55 {
					// primary operation of the pod's current sandbox
					p.mu.Lock()
					p.smu.Lock()
					gen, added, stopped := p.gen, p.added, p.stopped
					p.smu.Unlock()
					cid := fmt.Sprintf("c%d", gen)
					switch {
					case stopped:
						// previous sandbox is being / was stopped: maybe retry its DEL, else start a new sandbox
						if cr.Intn(3) == 0 {
							record(d.rpcDel(ctx, pi, cid))
						} else {
							p.smu.Lock()
							p.gen++
							p.added, p.stopped = false, false
							gen = p.gen
							p.smu.Unlock()
							cid = fmt.Sprintf("c%d", gen)
							if cr.Intn(4) == 0 {
								d.ensurePod(pi, true) // pod recreated under the same name with a new UID
							}
							res := d.rpcAdd(ctx, pi, cid)
							c04AfterAdd(d, p, res)
							res.Kind = "add"
							record(res)
						}
					case !added || cr.Intn(3) == 0:
						res := d.rpcAdd(ctx, pi, cid)
						c04AfterAdd(d, p, res)
						record(res)
					default:
						// stop the sandbox: the hold ends when DEL is issued
						p.smu.Lock()
						p.stopped = true
						p.smu.Unlock()
						d.mon.releaseInvoke(podKey)
						record(d.rpcDel(ctx, pi, cid))
					}
					p.mu.Unlock()
				} else {
					// stale / duplicate traffic, concurrent with whatever else is running for the pod
					p.smu.Lock()
					gen := p.gen
					p.smu.Unlock()
					var cid string
					switch cr.Intn(3) {
					case 0:
						cid = fmt.Sprintf("c%d", gen) // current id (status query of the live sandbox)
					case 1:
						cid = fmt.Sprintf("c%d", gen-1-cr.Intn(2)) // an older sandbox
					default:
						cid = fmt.Sprintf("x%d", cr.Intn(1000)) // unknown sandbox
					}
					if cr.Intn(2) == 0 || cid == fmt.Sprintf("c%d", gen) {
						record(d.rpcGet(ctx, pi, cid))
					} else {
						record(d.rpcDel(ctx, pi, cid)) // stale DEL replay
					}
				}
				cancel()
				r.Count("cancel_point:"+where, 1)
				if cr.Intn(4) == 0 {
					time.Sleep(time.Duration(cr.Intn(10)) * time.Millisecond)
				}
			}
		}()
	}
	cw.Wait()
	close(stopDrift)
	dw.Wait()
	r.Eval(1)
	d.db.putErr, d.db.delErr = nil, nil
	d.cloud.StopFaults()
	d.settle(30)

	// ---- oracles over the recorded history ----
	byPod := map[string][]rpcResult{}
	for _, x := range hist {
		byPod[x.Pod] = append(byPod[x.Pod], x)
	}
	r.Count("rpc_ops", int64(len(hist)))
	for pod, ops := range byPod {
		sort.Slice(ops, func(i, j int) bool { return ops[i].TCall < ops[j].TCall })
		var pops []porcupine.Operation
		stale, rejected, overlapping := 0, 0, 0
		for i, x := range ops {
			if x.Processing {
				rejected++
				// somebody else must have been in flight
				found := false
				for j, y := range ops {
					if i != j && y.TCall < x.TRet && y.TRet > x.TCall {
						found = true
						break
					}
				}
				if !found {
					r.Violate("C04.processing-without-concurrent-request", x.Kind, fmt.Sprintf("history %d: %s %s(%s) was rejected as 'processing' although no other request of that pod overlapped it", hid, pod, x.Kind, x.Container), c04Replay(hid, seed, cfg, ops))
				}
				continue
			}
			for j, y := range ops {
				if i != j && !y.Processing && y.TCall < x.TRet && y.TRet > x.TCall {
					overlapping++
					break
				}
			}
			if strings.HasPrefix(x.Container, "x") || x.Kind == "get" {
				stale++
			}
			out := c04Out{OK: x.Err == nil, V4: addrStr(x.V4), V6: addrStr(x.V6)}
			pops = append(pops, porcupine.Operation{ClientId: i, Input: c04In{Kind: x.Kind, Container: x.Container, Sticky: d.sticky[pod]}, Call: x.TCall, Output: out, Return: x.TRet})
		}
		r.Count("processing_rejections", int64(rejected))
		r.Count("accepted_ops_overlapping_same_pod", int64(overlapping))
		res, _ := porcupine.CheckOperationsVerbose(c04Model, pops, 60*time.Second)
		r.Count("porcupine_partitions", 1)
		switch res {
		case porcupine.Illegal:
			site := "sequential"
			if overlapping > 0 {
				site = "concurrent"
			}
			r.Violate("C04.history-not-linearizable", site, fmt.Sprintf("history %d: requests of %s do not fit the sandbox model (stale DEL/GET took effect, repeated ADD changed the address, or concurrent requests both took effect)", hid, pod), c04Replay(hid, seed, cfg, ops))
		case porcupine.Unknown:
			r.Inconclusive(fmt.Sprintf("porcupine timeout history %d pod %s (%d ops)", hid, pod, len(pops)))
		}
		if stale+rejected > 0 {
			var sb strings.Builder
			for _, x := range ops {
				fmt.Fprintf(&sb, "%s%v%v;", x.Kind[:1], x.Processing, x.Err == nil)
			}
			r.DistinctKey(fmt.Sprintf("%x", hashStr(sb.String())))
		}
	}

	// ---- quiescent agreement: records vs pool vs live sandboxes ----
	recs := d.records()
	st := d.status()
	owned := map[string]string{} // ip -> pod
	for _, ips := range st.ENIs {
		for ip, ps := range ips {
			if ps[0] != "" {
				owned[ip] = ps[0]
			}
		}
	}
	recIPs := map[string]string{}
	for pod, pr := range recs {
		for _, it := range pr.Resources {
			for _, ip := range []string{it.IPv4, it.IPv6} {
				if ip != "" {
					recIPs[ip] = pod
				}
			}
		}
	}
	for ip, pod := range owned {
		if recIPs[ip] != pod {
			site := "plain"
			if storeFaults {
				site = "store-fault"
			}
			r.Violate("C04.failed-add-kept-address", site, fmt.Sprintf("history %d: at quiescence %s is owned by %s in the pool but that pod has no record of it (an ADD that failed did not hand it back)", hid, ip, pod), c04Replay(hid, seed, cfg, byPod[pod]))
		}
	}
	for ip, pod := range recIPs {
		if owned[ip] != pod {
			r.Violate("C04.record-without-owner", "quiescent", fmt.Sprintf("history %d: %s has a record for %s but the pool says owner=%q: the address can be handed to another pod", hid, pod, ip, owned[ip]), c04Replay(hid, seed, cfg, byPod[pod]))
		}
	}
	// live sandboxes (ADD acknowledged, DEL never issued) must still have their record
	_, pstates := d.mon.holdSnapshot()
	for pod, ps := range pstates {
		if !ps.Held {
			continue
		}
		pr, ok := recs[pod]
		good := false
		if ok {
			for _, it := range pr.Resources {
				if it.IPv4 == addrStr(ps.V4) && it.IPv6 == addrStr(ps.V6) {
					good = true
				}
			}
		}
		if !good {
			r.Violate("C04.live-sandbox-lost-record", "quiescent", fmt.Sprintf("history %d: %s has a live sandbox with %v/%v but its record is %+v", hid, pod, ps.V4, ps.V6, pr.Resources), c04Replay(hid, seed, cfg, byPod[pod]))
		}
	}
	d.finishEvidence(r, false)
	if hid%100000 == 0 {
		var sample []string
		for _, x := range hist {
			if len(sample) < 25 {
				sample = append(sample, fmt.Sprintf("[%d,%d] %s %s(%s) -> err=%v processing=%v %v/%v", x.TCall, x.TRet, x.Pod, x.Kind, x.Container, x.Err != nil, x.Processing, addrStr(x.V4), addrStr(x.V6)))
			}
		}
		r.Sample(map[string]any{"history": hid, "ops": sample})
	}
}

func c04AfterAdd(d *dHist, p *c04Pod, res rpcResult) {
	if res.Err != nil {
		d.mon.allocFailed(res.Pod, res.Err, false)
		return
	}
	p.smu.Lock()
	p.added = true
	p.smu.Unlock()
	lr := &eni.LocalIPResource{ENI: tdaemon.ENI{ID: d.eniByMAC(res.MAC), MAC: res.MAC}, IP: types.IPSet2{IPv4: res.V4, IPv6: res.V6}}
	d.mon.ack(res.Pod, res.TCall, lr, d.cloudHas())
}

func c04Replay(hid int, seed int64, cfg poolCfg, ops []rpcResult) map[string]any {
	var l []string
	for _, x := range ops {
		e := ""
		if x.Err != nil {
			e = x.Err.Error()
			if len(e) > 80 {
				e = e[:80]
			}
		}
		l = append(l, fmt.Sprintf("[%d,%d] %s(%s) processing=%v err=%q -> %s/%s", x.TCall, x.TRet, x.Kind, x.Container, x.Processing, e, addrStr(x.V4), addrStr(x.V6)))
	}
	return map[string]any{"history": hid, "seed": seed, "config": cfg, "pod_ops": l}
}
