package main

// C13 configuration monitor: the declarative generators of all four datapaths on generated SetupConfigs.

import (
	"fmt"
	"math/rand"
	"net"

	cniTypes "github.com/containernetworking/cni/pkg/types"
	"github.com/vishvananda/netlink"
	"golang.org/x/sys/unix"

	"github.com/AliyunContainerService/terway/plugin/datapath"
	"github.com/AliyunContainerService/terway/plugin/driver/nic"
	dtypes "github.com/AliyunContainerService/terway/plugin/driver/types"
	ttypes "github.com/AliyunContainerService/terway/types"
)

type c13CfgJudge struct {
	c    *ctxT
	id   int
	dp   string
	cfg  *dtypes.SetupConfig
	desc string
}

func (j *c13CfgJudge) bad(site, f string, a ...any) {
	j.c.R.Violate("C13.config-intent", j.dp+"/"+site, fmt.Sprintf("config case %d (%s): ", j.id, j.desc)+fmt.Sprintf(f, a...), map[string]any{"case": j.id, "datapath": j.dp, "config": j.desc})
}

func isV4(ip net.IP) bool { return ip.To4() != nil }

func isDefault(n *net.IPNet) bool {
	if n == nil {
		return true
	}
	o, _ := n.Mask.Size()
	return o == 0 && n.IP.IsUnspecified()
}

func famOf(n *net.IPNet, gw net.IP) string {
	switch {
	case n != nil && n.IP != nil:
		if isV4(n.IP) {
			return "v4"
		}
		return "v6"
	case gw != nil:
		if isV4(gw) {
			return "v4"
		}
		return "v6"
	}
	return "?"
}

// judgeCont: the pod-side configuration.
func (j *c13CfgJudge) judgeCont(conf *nic.Conf, linkIdx int, wantGW map[string]net.IP, addrExact bool) {
	cfg := j.cfg
	pod := map[string]*net.IPNet{"v4": cfg.ContainerIPNet.IPv4, "v6": cfg.ContainerIPNet.IPv6}
	nAddr := map[string]int{}
	for _, a := range conf.Addrs {
		f := famOf(a.IPNet, nil)
		nAddr[f]++
		if pod[f] == nil {
			j.bad("disabled-family/addr", "address %s for a disabled family", a.IPNet)
		} else if !a.IP.Equal(pod[f].IP) {
			j.bad("address", "address %s is not the pod's %s", a.IPNet, pod[f].IP)
		}
	}
	for f, p := range pod {
		if p != nil && nAddr[f] != 1 {
			j.bad("address", "%d %s addresses, want exactly the pod's", nAddr[f], f)
		}
	}
	defaults := map[string]int{}
	tableDefault := map[string]bool{}
	table := 1000 + linkIdx
	for _, rt := range conf.Routes {
		f := famOf(rt.Dst, rt.Gw)
		if rt.Dst != nil && rt.Dst.IP == nil {
			f = famOf(nil, rt.Gw)
		}
		if isDefault(rt.Dst) {
			f = famOf(nil, rt.Gw)
			if rt.Dst != nil && len(rt.Dst.IP) == net.IPv6len && rt.Dst.IP.To4() == nil {
				f = "v6"
			}
		}
		if pod[f] == nil {
			j.bad("disabled-family/route", "route %v for a disabled family", rt)
			continue
		}
		if rt.LinkIndex != linkIdx {
			j.bad("route-link", "route %v is not on the pod's interface (index %d)", rt, linkIdx)
		}
		if isDefault(rt.Dst) {
			if rt.Table == 0 || rt.Table == unix.RT_TABLE_MAIN {
				defaults[f]++
				if !rt.Gw.Equal(wantGW[f]) {
					j.bad("default-gateway/"+f, "default route via %v, want %v", rt.Gw, wantGW[f])
				}
			} else if rt.Table == table {
				tableDefault[f] = true
			} else {
				j.bad("route-table", "default route in table %d, want main or %d", rt.Table, table)
			}
		}
	}
	for f, p := range pod {
		if p == nil {
			continue
		}
		want := 0
		if cfg.DefaultRoute {
			want = 1
		}
		if defaults[f] != want {
			j.bad(fmt.Sprintf("default-routes=%d/%s", defaults[f], f), "%d %s default routes in the main table, want %d", defaults[f], f, want)
		}
		if cfg.MultiNetwork && !tableDefault[f] {
			j.bad("multi-network/table-route/"+f, "multi-network: no %s default route in table %d", f, table)
		}
	}
	srcRule := map[string]bool{}
	for _, r := range conf.Rules {
		if !cfg.MultiNetwork {
			j.bad("rule-without-multi-network", "rule %v although multi-network is off", r)
			continue
		}
		if r.Table != table || r.Priority != 512 {
			j.bad("rule-table-prio", "rule %v, want table %d priority 512", r, table)
		}
		if r.Src != nil {
			f := famOf(r.Src, nil)
			if pod[f] == nil {
				j.bad("disabled-family/rule", "rule %v for a disabled family", r)
			} else if !r.Src.IP.Equal(pod[f].IP) {
				j.bad("rule-src", "rule %v does not select the pod's address", r)
			} else if o, b := r.Src.Mask.Size(); o != b {
				j.bad("rule-src-mask", "rule %v selects a whole prefix", r)
			} else {
				srcRule[f] = true
			}
		}
	}
	for f, p := range pod {
		if p != nil && cfg.MultiNetwork && !srcRule[f] {
			j.bad("multi-network/src-rule/"+f, "multi-network: no %s source rule for the pod", f)
		}
	}
	for _, n := range conf.Neighs {
		if f := famOf(nil, n.IP); pod[f] == nil {
			j.bad("disabled-family/neigh", "neighbour %v for a disabled family", n)
		}
	}
	for i := range cfg.ExtraRoutes {
		found := false
		for _, rt := range conf.Routes {
			if rt.Dst != nil && rt.Dst.String() == cfg.ExtraRoutes[i].Dst.String() {
				found = true
			}
		}
		if !found {
			j.bad("extra-route", "extra route %s is missing", cfg.ExtraRoutes[i].Dst.String())
		}
	}
	if pod["v6"] == nil && len(conf.SysCtl) > 0 {
		j.bad("disabled-family/sysctl", "IPv6 sysctls although IPv6 is disabled: %v", conf.SysCtl)
	}
}

// judgeHostPolicy: host veth + ENI configuration of the policy-route datapath.
func (j *c13CfgJudge) judgeHostPolicy(peer, eni *nic.Conf, peerIdx, eniIdx, table int) {
	cfg := j.cfg
	pod := map[string]*net.IPNet{"v4": cfg.ContainerIPNet.IPv4, "v6": cfg.ContainerIPNet.IPv6}
	gw := map[string]net.IP{"v4": cfg.GatewayIP.IPv4, "v6": cfg.GatewayIP.IPv6}
	if cfg.StripVlan {
		gw = map[string]net.IP{"v4": cfg.ENIGatewayIP.IPv4, "v6": cfg.ENIGatewayIP.IPv6}
	}
	to, from, podRoute, eniDefault := map[string]int{}, map[string]int{}, map[string]int{}, map[string]int{}
	for _, r := range peer.Rules {
		switch {
		case r.Dst != nil && r.Src == nil:
			f := famOf(r.Dst, nil)
			if pod[f] == nil || !r.Dst.IP.Equal(pod[f].IP) {
				j.bad("host/to-pod-rule", "rule %v does not select the pod's address", r)
				continue
			}
			if o, b := r.Dst.Mask.Size(); o != b || r.Priority != 512 || r.Table != unix.RT_TABLE_MAIN {
				j.bad("host/to-pod-rule", "rule %v, want a host rule priority 512 to main", r)
			}
			to[f]++
		case r.Src != nil && r.Dst == nil:
			f := famOf(r.Src, nil)
			if pod[f] == nil || !r.Src.IP.Equal(pod[f].IP) {
				j.bad("host/from-pod-rule", "rule %v does not select the pod's address", r)
				continue
			}
			if o, b := r.Src.Mask.Size(); o != b || r.Priority != 2048 || r.Table != table {
				j.bad("host/from-pod-rule", "rule %v, want a host rule priority 2048 to table %d", r, table)
			}
			from[f]++
		default:
			j.bad("host/rule-shape", "rule %v selects neither only source nor only destination", r)
		}
	}
	for _, rt := range peer.Routes {
		f := famOf(rt.Dst, rt.Gw)
		if pod[f] == nil {
			j.bad("disabled-family/host-route", "host route %v for a disabled family", rt)
			continue
		}
		if rt.Dst != nil && rt.Dst.IP.Equal(pod[f].IP) {
			if o, b := rt.Dst.Mask.Size(); o != b || rt.LinkIndex != peerIdx || (rt.Table != 0 && rt.Table != unix.RT_TABLE_MAIN) {
				j.bad("host/pod-route", "route %v, want the pod's host route on its veth in main", rt)
			}
			podRoute[f]++
		}
	}
	for _, rt := range eni.Routes {
		f := famOf(rt.Dst, rt.Gw)
		if isDefault(rt.Dst) {
			f = famOf(nil, rt.Gw)
		}
		if pod[f] == nil {
			j.bad("disabled-family/eni-route", "ENI route %v for a disabled family", rt)
			continue
		}
		if isDefault(rt.Dst) {
			if rt.Table != table || rt.LinkIndex != eniIdx || !rt.Gw.Equal(gw[f]) {
				j.bad("host/eni-default/"+f, "ENI default route %v, want table %d dev index %d via %s", rt, table, eniIdx, gw[f])
			}
			eniDefault[f]++
		}
	}
	for f, p := range pod {
		if p == nil {
			if to[f]+from[f]+podRoute[f]+eniDefault[f] > 0 {
				j.bad("disabled-family/host", "%s host state although the family is disabled", f)
			}
			continue
		}
		if to[f] != 1 || from[f] != 1 || podRoute[f] != 1 || eniDefault[f] != 1 {
			j.bad("host/completeness/"+f, "%s: to-pod rules %d, from-pod rules %d, pod routes %d, ENI default routes %d; want one each", f, to[f], from[f], podRoute[f], eniDefault[f])
		}
	}
}

func c13ConfigCase(c *ctxT, id int, rng *rand.Rand) {
	v4, v6 := true, true
	switch rng.Intn(4) {
	case 0:
		v6 = false
	case 1:
		v4 = false
	}
	cfg := &dtypes.SetupConfig{HostVETHName: "cali0123456789a", ContainerIfName: []string{"eth0", "eth1"}[rng.Intn(2)], ContainerIPNet: &ttypes.IPNetSet{}, GatewayIP: &ttypes.IPSet{}, ENIGatewayIP: &ttypes.IPSet{},
		MTU: 1500, ENIIndex: 2 + rng.Intn(20), DefaultRoute: rng.Intn(4) != 0, MultiNetwork: rng.Intn(3) == 0, StripVlan: rng.Intn(4) == 0, Vid: 1 + rng.Intn(4000), HostIPSet: &ttypes.IPNetSet{}, ServiceCIDR: &ttypes.IPNetSet{}}
	a, b, d := rng.Intn(250), rng.Intn(250), 2+rng.Intn(250)
	if v4 {
		cfg.ContainerIPNet.IPv4 = c13CIDR(fmt.Sprintf("10.%d.%d.%d/%d", a, b, d, []int{8, 16, 19, 24, 28}[rng.Intn(5)]))
		cfg.GatewayIP.IPv4 = net.ParseIP(fmt.Sprintf("10.%d.%d.253", a, b))
		cfg.ENIGatewayIP.IPv4 = net.ParseIP(fmt.Sprintf("10.%d.200.253", a))
		cfg.HostIPSet.IPv4 = c13CIDR(fmt.Sprintf("10.%d.0.2/16", a))
		cfg.ServiceCIDR.IPv4 = c13CIDR("172.16.0.0/16")
	}
	if v6 {
		cfg.ContainerIPNet.IPv6 = c13CIDR(fmt.Sprintf("fd00:%x::%x:%x/%d", a, b, d, []int{64, 80, 96, 112}[rng.Intn(4)]))
		cfg.GatewayIP.IPv6 = net.ParseIP(fmt.Sprintf("fd00:%x::fffd", a))
		cfg.ENIGatewayIP.IPv6 = net.ParseIP(fmt.Sprintf("fd00:%x::fffc", a))
		cfg.HostIPSet.IPv6 = c13CIDR(fmt.Sprintf("fd00:%x::2/64", a))
		cfg.ServiceCIDR.IPv6 = c13CIDR("fd00:aa::/112")
	}
	if rng.Intn(3) == 0 {
		if v4 {
			cfg.ExtraRoutes = append(cfg.ExtraRoutes, cniTypes.Route{Dst: *c13CIDR("172.31.0.0/16")}, cniTypes.Route{Dst: *c13CIDR("192.168.77.0/24"), GW: net.ParseIP("169.254.1.1")})
		}
		if v6 {
			cfg.ExtraRoutes = append(cfg.ExtraRoutes, cniTypes.Route{Dst: *c13CIDR("fd00:99::/64")})
		}
	}
	contIdx, peerIdx := 3+rng.Intn(40), 50+rng.Intn(40)
	mac, _ := net.ParseMAC("02:00:00:00:00:01")
	cont := &netlink.Device{LinkAttrs: netlink.LinkAttrs{Index: contIdx, Name: cfg.ContainerIfName, HardwareAddr: mac}}
	peer := &netlink.Device{LinkAttrs: netlink.LinkAttrs{Index: peerIdx, Name: cfg.HostVETHName, HardwareAddr: mac}}
	eni := &netlink.Device{LinkAttrs: netlink.LinkAttrs{Index: cfg.ENIIndex, Name: "eth9", HardwareAddr: mac}}
	desc := fmt.Sprintf("v4=%v v6=%v default=%v multi=%v strip=%v extra=%d if=%s", cfg.ContainerIPNet.IPv4, cfg.ContainerIPNet.IPv6, cfg.DefaultRoute, cfg.MultiNetwork, cfg.StripVlan, len(cfg.ExtraRoutes), cfg.ContainerIfName)
	sig := fmt.Sprintf("v4%v/v6%v/d%v/m%v/s%v/x%d", v4, v6, cfg.DefaultRoute, cfg.MultiNetwork, cfg.StripVlan, len(cfg.ExtraRoutes))
	link4, link6 := net.ParseIP("169.254.1.1"), net.ParseIP("fe80::1")
	gwCfg := map[string]net.IP{"v4": cfg.GatewayIP.IPv4, "v6": cfg.GatewayIP.IPv6}

	// policy route
	j := &c13CfgJudge{c: c, id: id, dp: "policy-route", cfg: cfg, desc: desc}
	j.judgeCont(datapath.VerifGenerateContCfgForPolicy(cfg, cont, mac), contIdx, map[string]net.IP{"v4": link4, "v6": link6}, true)
	table := 1000 + cfg.ENIIndex
	j.judgeHostPolicy(datapath.GenerateHostPeerCfgForPolicy(cfg, peer, table), datapath.GenerateENICfgForPolicy(cfg, eni, table), peerIdx, cfg.ENIIndex, table)
	// exclusive ENI
	j = &c13CfgJudge{c: c, id: id, dp: "exclusive-eni", cfg: cfg, desc: desc}
	j.judgeCont(datapath.VerifGenerateContCfgForExclusiveENI(cfg, cont), contIdx, gwCfg, true)
	hs := datapath.VerifGenerateHostSlaveCfg(cfg, peer)
	nPod := 0
	for _, rt := range hs.Routes {
		f := famOf(rt.Dst, nil)
		p := map[string]*net.IPNet{"v4": cfg.ContainerIPNet.IPv4, "v6": cfg.ContainerIPNet.IPv6}[f]
		if p == nil {
			j.bad("disabled-family/host-route", "host peer route %v for a disabled family", rt)
		} else if rt.Dst.IP.Equal(p.IP) && rt.LinkIndex == peerIdx {
			nPod++
		}
	}
	want := 0
	if v4 {
		want++
	}
	if v6 {
		want++
	}
	if nPod != want {
		j.bad("host/pod-route", "host peer has %d routes to the pod, want %d", nPod, want)
	}
	// ipvlan
	j = &c13CfgJudge{c: c, id: id, dp: "ipvlan", cfg: cfg, desc: desc}
	ipvl := *cfg
	ipvl.ExtraRoutes = nil // the ipvlan datapath does not take extra routes
	j.cfg = &ipvl
	j.judgeCont(datapath.VerifGenerateContCfgForIPVlan(&ipvl, cont), contIdx, gwCfg, false)
	sl := datapath.VerifGenerateSlaveLinkCfgForIPVlan(&ipvl, peer)
	nPod = 0
	for _, rt := range sl.Routes {
		f := famOf(rt.Dst, nil)
		p := map[string]*net.IPNet{"v4": cfg.ContainerIPNet.IPv4, "v6": cfg.ContainerIPNet.IPv6}[f]
		if p == nil {
			j.bad("disabled-family/host-route", "ipvlan slave route %v for a disabled family", rt)
		} else if rt.Dst.IP.Equal(p.IP) && rt.LinkIndex == peerIdx {
			if o, b := rt.Dst.Mask.Size(); o == b {
				nPod++
			}
		}
	}
	if nPod != want {
		j.bad("host/pod-route", "ipvlan slave has %d host routes to the pod, want %d", nPod, want)
	}
	if e := datapath.VerifGenerateENICfgForIPVlan(&ipvl, eni); !v6 && len(e.SysCtl) > 0 {
		j.bad("disabled-family/sysctl", "ENI IPv6 sysctls although IPv6 is disabled")
	}
	// vlan
	j = &c13CfgJudge{c: c, id: id, dp: "vlan", cfg: cfg, desc: desc}
	j.judgeCont(datapath.VerifGenerateContCfgForVlan(cfg, cont), contIdx, gwCfg, false)
	_ = datapath.VerifGenerateENICfgForVlan(cfg)
	c.R.Eval(1)
	c.R.Count("config_cases", 1)
	c.R.DistinctKey("config/" + sig)
}
