package main

// C05 — a daemon restart keeps acknowledged allocations and never double-allocates.
//
// (1) crash-point snapshots: while a daemon history runs, a crash image (byte copy of the bolt
//     file taken while no write transaction is open + deep copy of the cloud + the set of replies
//     already returned) is taken at every effect boundary; images are restarted the way
//     builder.setupENIManager does and judged.
// (2) SIGKILL of a write stream through the real DiskStorage in a child process.

import (
	"bufio"
	"context"
	"fmt"
	"math/rand"
	"net/netip"
	"os"
	"os/exec"
	"path/filepath"
	"sort"
	"strings"
	"sync"
	"syscall"
	"time"

	corev1 "k8s.io/api/core/v1"
	metav1 "k8s.io/apimachinery/pkg/apis/meta/v1"
	k8stypes "k8s.io/apimachinery/pkg/types"

	"github.com/AliyunContainerService/terway/daemon"
	"github.com/AliyunContainerService/terway/pkg/eni"
	"github.com/AliyunContainerService/terway/pkg/k8s"
	"github.com/AliyunContainerService/terway/pkg/storage"
	"github.com/AliyunContainerService/terway/rpc"
	"github.com/AliyunContainerService/terway/types"
	tdaemon "github.com/AliyunContainerService/terway/types/daemon"

	"verifharness/cloudsim"
)

func init() {
	register("C05", &checkDef{level: "fault_enumeration", fn: runC05, race: func(rep string) (string, bool) {
		if strings.Contains(rep, "pkg/storage.") || strings.Contains(rep, "pkg/eni.(*Local).load") {
			return "store-or-load", true
		}
		return "", false
	},
		batches:  func(th bool) int { return map[bool]int{false: 4, true: 16}[th] },
		parallel: func(th bool) int { return 4 },
		timeout: func(th bool) time.Duration {
			return map[bool]time.Duration{false: 20 * time.Minute, true: 90 * time.Minute}[th]
		},
	})
	internalCmds["_kvwriter"] = kvWriter
}

type c05Ack struct {
	Held      bool // ADD acknowledged, no DEL issued since
	Deleted   bool // DEL acknowledged, no ADD issued since
	Limbo     bool // a primary request is in flight
	V4, V6    netip.Addr
	Container string
	Prev      string // the sandbox id of the acknowledged ADD before the latest one, when it differs
}

type c05Image struct {
	Point string
	DB    string
	Cloud *cloudsim.Cloud
	Acks  map[string]c05Ack
}

func runC05(c *ctxT) {
	r := c.R
	nHist, perHist, nKill := 12, 40, 8
	if c.Thorough {
		nHist, perHist, nKill = 60, 80, 30
	}
	r.Rule = "(1) every effect boundary (before/after each database write, after each reply, after each mutating cloud call) of every request of generated daemon histories is a crash point; up to K images per history (all when fewer) are restarted like builder.setupENIManager (open db copy, attached ENIs from the cloud copy, filterENINotFound, NewLocal per ENI, Manager.Run(records)) and judged: acknowledged ADDs keep record, ownership and address on a repeated ADD, acknowledged DELs are gone, fresh pods never receive an acknowledged address. (2) a child process streams Put/Delete through the real DiskStorage, acknowledges each op, is SIGKILLed at a PRNG-chosen instant; the reopened store must equal the model up to the single in-flight op. distinct = distinct (crash point kind, #acked pods bucket, #records bucket) + kill instants"
	r.Assumptions = []string{"SIGKILL, not power loss: page-cache durability", "API server objects survive the daemon restart", "a crash image is taken only while no write transaction is open (the wrapper serialises writes)"}
	var wg sync.WaitGroup
	sem := make(chan struct{}, 12)
	base := r.Seed*7919 + int64(c.Batch)*1000003
	for i := 0; i < nHist; i++ {
		wg.Add(1)
		sem <- struct{}{}
		go func(i int) {
			defer wg.Done()
			defer func() { <-sem }()
			c05History(c, c.Batch*100000+i, base+int64(i)*104729, perHist, false)
		}(i)
	}
	wg.Wait()
	// directed: a DEL parked on its way to the record store while other pods' ADDs are served
	for i := 0; i < map[bool]int{false: 3, true: 8}[c.Thorough]; i++ {
		c05History(c, c.Batch*100000+50000+i, base+int64(i)*15485863+11, perHist, true)
	}
	c05Filter(c, dRand(base^0xf117), map[bool]int{false: 20000, true: 400000}[c.Thorough])
	for k := 0; k < nKill; k++ {
		c05Kill(c, base+int64(k)*7)
	}
}

func c05History(c *ctxT, hid int, seed int64, perHist int, directed bool) {
	r := c.R
	rng := dRand(seed)
	cfg := genPoolCfg(rng, false)
	cfg.ERDMA, cfg.Trunk, cfg.Drift, cfg.StrayTrunk, cfg.StrayERDMA = false, false, false, false, false
	cfg.V4 = true
	for i := range cfg.Pre {
		if cfg.Pre[i] < 1 {
			cfg.Pre[i] = 1
		}
	}
	cfg.Pods = 4 + rng.Intn(6)
	cfg.Clients = 2 + rng.Intn(4)
	cfg.OpsPerCli = 6 + rng.Intn(8)
	cfg.Balancer = rng.Intn(2) == 0
	if rng.Intn(3) == 0 {
		cfg.Faults = genFaults(rng, 1+rng.Intn(3), 20)
	}
	if directed {
		cfg.Slots, cfg.Pre, cfg.PreV6, cfg.Faults = 1, nil, nil, nil
		cfg.Cap = 3 + rng.Intn(3)
		cfg.MinIdle, cfg.MaxIdle = 0, rng.Intn(2)
		cfg.Pods = cfg.Cap + 4
		cfg.CancelPct = 0
	}
	fmt.Printf("CASE C05 history %d seed %d directed %v cfg %+v\n", hid, seed, directed, cfg)
	d, err := newDHist(c, "C05", hid, cfg, seed, types.IPAMTypeDefault)
	if err != nil {
		r.Inconclusive(fmt.Sprintf("history %d: %v", hid, err))
		return
	}
	for i := 0; i < cfg.Pods; i++ {
		d.ensurePod(i, false)
	}
	var amu sync.Mutex
	acks := map[string]c05Ack{}
	var images []*c05Image
	nimg := 0
	irng := dRand(seed ^ 0x1a6e)
	// take an image; caller holds d.db.mu (no write transaction open)
	take := func(point string, cloud *cloudsim.Cloud) {
		amu.Lock()
		defer amu.Unlock()
		nimg++
		// reservoir sampling keeps at most perHist images, all boundaries are counted
		slot := -1
		if len(images) < perHist {
			slot = len(images)
			images = append(images, nil)
		} else if j := irng.Intn(nimg); j < perHist {
			slot = j
		}
		if slot < 0 {
			return
		}
		path := filepath.Join(d.dir, fmt.Sprintf("img%d.db", slot))
		if err := copyFile(d.db.path, path); err != nil {
			return
		}
		cp := map[string]c05Ack{}
		for k, v := range acks {
			cp[k] = v
		}
		images[slot] = &c05Image{Point: point, DB: path, Cloud: cloud, Acks: cp}
	}
	d.db.observe = func(kind, key string, before bool) {
		when := "after"
		if before {
			when = "before"
		}
		take(when+"-db-"+kind, d.cloud.Clone(d.mon.now))
	}
	// after each mutating cloud call (listener runs under the cloud lock: never block on the store lock)
	d.cloud.PostMutate = func(api string, locked *cloudsim.Cloud) {
		if d.db.mu.TryLock() {
			take("after-cloud-"+api, locked.CloneLocked(d.mon.now))
			d.db.mu.Unlock()
		}
	}
	if directed {
		c05ParkedDel(d, rng, acks, &amu, take)
	}
	var cw sync.WaitGroup
	if directed {
		cfg.Clients = 0
	}
	pods := make([]*c04Pod, cfg.Pods)
	for i := range pods {
		pods[i] = &c04Pod{}
	}
	for ci := 0; ci < cfg.Clients; ci++ {
		cw.Add(1)
		cs := rng.Int63()
		go func() {
			defer cw.Done()
			cr := dRand(cs)
			for k := 0; k < cfg.OpsPerCli; k++ {
				pi := cr.Intn(cfg.Pods)
				p := pods[pi]
				pod := fmt.Sprintf("ns/p%d", pi)
				if !p.mu.TryLock() {
					continue
				}
				ctx, cancel := context.WithTimeout(d.ctx, 2500*time.Millisecond)
				if cr.Intn(8) == 0 {
					time.AfterFunc(time.Duration(cr.Intn(400))*time.Millisecond, cancel)
				}
				cid := fmt.Sprintf("c%d", p.gen)
				amu.Lock()
				a := acks[pod]
				amu.Unlock()
				if !a.Held || cr.Intn(4) == 0 {
					if a.Deleted || (!a.Held && p.stopped) {
						p.gen++
						p.stopped = false
						cid = fmt.Sprintf("c%d", p.gen)
					} else if a.Held && cr.Intn(3) == 0 {
						// the sandbox was re-created without a DEL of the old one (kubelet / runtime restart): the
						// ADD of the new sandbox is acknowledged, the DEL of the old one arrives late or after a restart
						p.gen++
						cid = fmt.Sprintf("c%d", p.gen)
					}
					amu.Lock()
					x := acks[pod]
					x.Deleted = false
					if !x.Held {
						x.Limbo = true
					}
					acks[pod] = x
					amu.Unlock()
					res := d.rpcAdd(ctx, pi, cid)
					amu.Lock()
					x = acks[pod]
					x.Limbo = false
					if res.Err == nil {
						if x.Held && x.Container != cid {
							x.Prev = x.Container
						}
						x.Held, x.V4, x.V6, x.Container = true, res.V4, res.V6, cid
					}
					acks[pod] = x
					amu.Unlock()
					if res.Err == nil {
						d.db.mu.Lock()
						take("after-reply-add", d.cloud.Clone(d.mon.now))
						d.db.mu.Unlock()
					}
				} else {
					amu.Lock()
					x := acks[pod]
					x.Held, x.Limbo = false, true
					acks[pod] = x
					amu.Unlock()
					p.stopped = true
					res := d.rpcDel(ctx, pi, cid)
					amu.Lock()
					x = acks[pod]
					if res.Err == nil {
						x.Limbo, x.Deleted = false, true
					}
					acks[pod] = x
					amu.Unlock()
					if res.Err == nil {
						d.db.mu.Lock()
						take("after-reply-del", d.cloud.Clone(d.mon.now))
						d.db.mu.Unlock()
					}
				}
				cancel()
				p.mu.Unlock()
			}
		}()
	}
	cw.Wait()
	d.stop()
	d.db.observe = nil
	d.cloud.PostMutate = nil
	r.Count("crash_points_enumerated", int64(nimg))
	r.Eval(1)
	// restart every kept image
	for idx, img := range images {
		if img == nil {
			continue
		}
		c05Restart(c, d, hid, seed, idx, img)
	}
	for _, img := range images {
		if img != nil {
			_ = os.Remove(img.DB)
		}
	}
	_ = os.RemoveAll(d.dir)
}

// c05ParkedDel: the DEL of one pod is parked where it calls the record store while ADDs of other pods are served to
// completion; every boundary of those ADDs is a crash point at which the DEL is half done. With the pool released
// before the record is removed, an ADD served in that window can be handed the address the stale record still names.
func c05ParkedDel(d *dHist, rng *rand.Rand, acks map[string]c05Ack, amu *sync.Mutex, take func(string, *cloudsim.Cloud)) {
	r := d.c.R
	cfg := d.cfg
	bg := func() (context.Context, context.CancelFunc) { return context.WithTimeout(d.ctx, 20*time.Second) }
	nHeld := 2 + rng.Intn(cfg.Cap-1)
	add := func(pi int) bool {
		pod := fmt.Sprintf("ns/p%d", pi)
		amu.Lock()
		x := acks[pod]
		x.Limbo = true
		acks[pod] = x
		amu.Unlock()
		ctx, cancel := bg()
		res := d.rpcAdd(ctx, pi, "c0")
		cancel()
		amu.Lock()
		x = acks[pod]
		x.Limbo = false
		if res.Err == nil {
			x.Held, x.V4, x.V6, x.Container = true, res.V4, res.V6, "c0"
		}
		acks[pod] = x
		amu.Unlock()
		if res.Err == nil {
			d.db.mu.Lock()
			take("after-reply-add", d.cloud.Clone(d.mon.now))
			d.db.mu.Unlock()
		}
		return res.Err == nil
	}
	for pi := 0; pi < nHeld; pi++ {
		if !add(pi) {
			nHeld = pi
			break
		}
	}
	if nHeld == 0 {
		return
	}
	victim := rng.Intn(nHeld)
	vpod := fmt.Sprintf("ns/p%d", victim)
	parked, resume := make(chan struct{}), make(chan struct{})
	var once sync.Once
	d.db.gate = func(kind, key string) {
		if kind == "delete" && strings.HasSuffix(key, fmt.Sprintf("p%d", victim)) {
			hit := false
			once.Do(func() { hit = true })
			if hit {
				close(parked)
				<-resume
			}
		}
	}
	amu.Lock()
	x := acks[vpod]
	vaddr := x.V4
	x.Held, x.Limbo = false, true
	acks[vpod] = x
	amu.Unlock()
	delDone := make(chan error, 1)
	go func() {
		ctx, cancel := bg()
		defer cancel()
		delDone <- d.rpcDel(ctx, victim, "c0").Err
	}()
	select {
	case <-parked:
		r.Count("directed:del-parked-at-record-delete", 1)
	case err := <-delDone:
		// the DEL never reached the store
		d.db.gate = nil
		r.Count("directed:del-finished-unparked", 1)
		_ = err
		return
	}
	reused := false
	for pi := nHeld; pi < cfg.Pods && !reused; pi++ {
		if !add(pi) {
			break
		}
		amu.Lock()
		reused = acks[fmt.Sprintf("ns/p%d", pi)].V4 == vaddr && vaddr.IsValid()
		amu.Unlock()
	}
	if reused {
		r.Count("directed:address-reused-while-del-parked", 1)
	} else {
		r.Count("directed:address-kept-while-del-parked", 1)
	}
	close(resume)
	err := <-delDone
	d.db.gate = nil
	amu.Lock()
	x = acks[vpod]
	if err == nil {
		x.Limbo, x.Deleted = false, true
	}
	acks[vpod] = x
	amu.Unlock()
	if err == nil {
		d.db.mu.Lock()
		take("after-reply-del", d.cloud.Clone(d.mon.now))
		d.db.mu.Unlock()
	}
}

func c05Restart(c *ctxT, d *dHist, hid int, seed int64, idx int, img *c05Image) {
	r := c.R
	cfg := d.cfg
	r.Count("crash_images_restarted", 1)
	r.Count("crash_point:"+img.Point, 1)
	rep := func(extra string) map[string]any {
		return map[string]any{"history": hid, "seed": seed, "config": cfg, "crash_point": img.Point, "image": idx, "acks": fmt.Sprintf("%+v", img.Acks), "detail": extra}
	}
	db, err := openResDB(img.DB)
	if err != nil {
		r.Violate("C05.store-unreadable", img.Point, fmt.Sprintf("history %d image %d: reopening the database copy failed: %v", hid, idx, err), rep(""))
		return
	}
	list, _ := db.List()
	podResources := daemon.VerifGetPodResources(list)
	recs := map[string]tdaemon.PodResources{}
	for _, pr := range podResources {
		if pr.PodInfo != nil {
			recs[pr.PodInfo.Namespace+"/"+pr.PodInfo.Name] = pr
		}
	}
	attached, _ := img.Cloud.GetAttachedNetworkInterface("")
	attachedMap := map[string]*tdaemon.ENI{}
	for _, e := range attached {
		attachedMap[e.ID] = e
	}
	podResources = daemon.VerifFilterENINotFound(podResources, attachedMap)
	// a third of the restarts come up with a smaller per-interface limit than the one the addresses were taken
	// under (configuration or instance limits changed): interfaces then hold more than the limit, the surplus idle
	// addresses go, the acknowledged ones stay
	rcap := cfg.Cap
	if idx%3 == 1 {
		rcap = max(1, cfg.Cap/2)
		r.Count("restarts_with_smaller_per_interface_limit", 1)
	}
	pc := &tdaemon.PoolConfig{EnableIPv4: cfg.V4, EnableIPv6: cfg.V6, Capacity: cfg.Slots * rcap, MaxENI: cfg.Slots, MaxIPPerENI: rcap, BatchSize: cfg.Batch, MaxPoolSize: cfg.MaxIdle, MinPoolSize: cfg.MinIdle}
	var nis []eni.NetworkInterface
	for _, e := range attached {
		nis = append(nis, eni.NewLocal(e, "secondary", img.Cloud, pc))
	}
	for i := len(attached); i < cfg.Slots; i++ {
		nis = append(nis, eni.NewLocal(nil, "secondary", img.Cloud, pc))
	}
	mgr := eni.NewManager(cfg.MinIdle, cfg.MaxIdle, cfg.Slots*cfg.Cap, 0, nis, tdaemon.EniSelectionPolicy(cfg.Policy), nil)
	ctx, cancel := context.WithCancel(context.Background())
	var wg sync.WaitGroup
	defer stopWorkers(cancel, &wg, r)
	if err := mgr.Run(ctx, &wg, podResources); err != nil {
		r.Violate("C05.restart-failed", img.Point, fmt.Sprintf("history %d image %d: the pool does not start from the stored records: %v", hid, idx, err), rep(""))
		return
	}
	svcCIDR := &types.IPNetSet{}
	svcCIDR.SetIPNet("172.16.0.0/16")
	kube := k8s.NewVerifK8S(d.cl, tdaemon.ModeENIMultiIP, d.node, storage.NewMemoryStorage(), svcCIDR, false)
	svc := daemon.NewVerifService(kube, db, mgr, tdaemon.ModeENIMultiIP, types.IPAMTypeDefault, cfg.V4, cfg.V6, false)
	owners := map[string]string{}
	idle := 0
	for _, s := range mgr.Status() {
		for _, u := range s.Usage {
			if len(u) == 3 {
				if u[1] != "" {
					owners[u[0]] = u[1]
				} else if u[2] == "Valid" && s.Status == "InUse" {
					if a, err := netip.ParseAddr(u[0]); err == nil && a.Is4() {
						idle++
					}
				}
			}
		}
	}
	heldAddrs := map[string]string{}
	nAck := 0
	var pods []string
	for p := range img.Acks {
		pods = append(pods, p)
	}
	sort.Strings(pods)
	for _, pod := range pods {
		a := img.Acks[pod]
		name := strings.TrimPrefix(pod, "ns/")
		switch {
		case a.Held:
			nAck++
			want4, want6 := addrStr(a.V4), addrStr(a.V6)
			pr, ok := recs[pod]
			good := false
			for _, it := range pr.Resources {
				if it.IPv4 == want4 && it.IPv6 == want6 {
					good = true
				}
			}
			if !ok || !good {
				r.Violate("C05.acked-add-not-durable", img.Point, fmt.Sprintf("history %d image %d: ADD of %s was acknowledged with %s/%s but the on-disk record is %+v", hid, idx, pod, want4, want6, pr.Resources), rep(""))
				continue
			}
			for _, ip := range []string{want4, want6} {
				if ip == "" {
					continue
				}
				heldAddrs[ip] = pod
				if owners[ip] != pod {
					r.Violate("C05.acked-owner-lost", img.Point, fmt.Sprintf("history %d image %d: after restart %s (acknowledged to %s) is owned by %q in the pool", hid, idx, ip, pod, owners[ip]), rep(""))
				}
			}
			rctx, rcancel := context.WithTimeout(context.Background(), 10*time.Second)
			if a.Prev != "" && a.Prev != a.Container {
				// the late DEL of the sandbox that the acknowledged ADD replaced: the record must name the new one
				_, _ = svc.ReleaseIP(rctx, &rpc.ReleaseIPRequest{K8SPodName: name, K8SPodNamespace: "ns", K8SPodInfraContainerId: a.Prev})
				r.Count("late_del_of_replaced_sandbox_after_restart", 1)
				st := mgr.Status()
				for _, ip := range []string{want4, want6} {
					if ip == "" {
						continue
					}
					still := false
					for _, e := range st {
						for _, u := range e.Usage {
							if len(u) > 1 && u[0] == ip && u[1] == pod {
								still = true
							}
						}
					}
					if !still {
						r.Violate("C05.acked-add-not-durable", img.Point+"/replaced-sandbox", fmt.Sprintf("history %d image %d: the ADD of sandbox %s of %s was acknowledged; after restart the DEL of the replaced sandbox %s released %s", hid, idx, a.Container, pod, a.Prev, ip), rep(""))
					}
				}
			}
			reply, err := svc.AllocIP(rctx, &rpc.AllocIPRequest{K8SPodName: name, K8SPodNamespace: "ns", K8SPodInfraContainerId: a.Container, Netns: "/proc/1/ns/net", IfName: "eth0"})
			rcancel()
			if err != nil {
				r.Violate("C05.acked-repeat-differs", img.Point+"/error", fmt.Sprintf("history %d image %d: repeated ADD of %s after restart failed: %v", hid, idx, pod, err), rep(""))
				continue
			}
			g4, g6, _ := addrsOf(reply.NetConfs)
			if addrStr(g4) != want4 || addrStr(g6) != want6 {
				r.Violate("C05.acked-repeat-differs", img.Point, fmt.Sprintf("history %d image %d: %s was acknowledged %s/%s, repeated ADD after restart returned %s/%s", hid, idx, pod, want4, want6, addrStr(g4), addrStr(g6)), rep(""))
			}
		case a.Deleted && !a.Limbo:
			if pr, ok := recs[pod]; ok {
				r.Violate("C05.acked-del-not-durable", img.Point, fmt.Sprintf("history %d image %d: DEL of %s was acknowledged but its record is still on disk: %+v", hid, idx, pod, pr.Resources), rep(""))
			}
		}
	}
	// fresh pods take every idle address: none may be one that an acknowledged pod holds
	fresh := min(idle, 4)
	for j := 0; j < fresh; j++ {
		name := fmt.Sprintf("fresh-%d-%d-%d", hid, idx, j)
		_ = d.cl.Create(context.Background(), &corev1.Pod{ObjectMeta: metav1.ObjectMeta{Name: name, Namespace: "ns", UID: k8stypes.UID("uid-" + name)}, Spec: corev1.PodSpec{NodeName: "node-1", Containers: []corev1.Container{{Name: "c", Image: "x"}}}})
		actx, acancel := context.WithTimeout(context.Background(), 2*time.Second)
		reply, err := svc.AllocIP(actx, &rpc.AllocIPRequest{K8SPodName: name, K8SPodNamespace: "ns", K8SPodInfraContainerId: "f", Netns: "/proc/1/ns/net", IfName: "eth0"})
		acancel()
		if err != nil {
			continue
		}
		g4, g6, _ := addrsOf(reply.NetConfs)
		for _, ip := range []string{addrStr(g4), addrStr(g6)} {
			if ip != "" && heldAddrs[ip] != "" {
				r.Violate("C05.double-allocation", img.Point, fmt.Sprintf("history %d image %d: after restart the fresh pod %s received %s which was acknowledged to %s", hid, idx, name, ip, heldAddrs[ip]), rep(""))
			}
		}
		r.Count("fresh_adds_after_restart", 1)
	}
	r.DistinctKey(fmt.Sprintf("img/%s/acked%d/recs%d", img.Point, bucket(nAck), bucket(len(recs))))
	if hid%100000 == 0 && idx < 2 {
		r.Sample(map[string]any{"history": hid, "crash_point": img.Point, "acked": fmt.Sprintf("%+v", img.Acks), "records": len(recs), "attached_enis": len(attached)})
	}
}

// ---------- (2) SIGKILL of a write stream ----------

// kvWriter is the child: args = <dbpath> <logpath> <seed>
func kvWriter(args []string) int {
	if len(args) < 3 {
		return 3
	}
	st, err := storage.NewDiskStorage("kv", args[0], func(v interface{}) ([]byte, error) { return []byte(v.(string)), nil }, func(b []byte) (interface{}, error) { return string(b), nil })
	if err != nil {
		fmt.Println("open:", err)
		return 4
	}
	lf, err := os.OpenFile(args[1], os.O_CREATE|os.O_WRONLY|os.O_APPEND, 0o644)
	if err != nil {
		return 4
	}
	var seed int64
	fmt.Sscan(args[2], &seed)
	rng := rand.New(rand.NewSource(seed))
	for i := 0; ; i++ {
		key := fmt.Sprintf("k%d", rng.Intn(8))
		if rng.Intn(3) == 0 {
			fmt.Fprintf(lf, "TRY %d del %s -\n", i, key)
			if err := st.Delete(key); err != nil {
				fmt.Fprintf(lf, "ERR %d %v\n", i, err)
				continue
			}
		} else {
			val := fmt.Sprintf("v%d", i)
			fmt.Fprintf(lf, "TRY %d put %s %s\n", i, key, val)
			if err := st.Put(key, val); err != nil {
				fmt.Fprintf(lf, "ERR %d %v\n", i, err)
				continue
			}
		}
		fmt.Fprintf(lf, "ACK %d\n", i)
	}
}

func c05Kill(c *ctxT, seed int64) {
	r := c.R
	rng := dRand(seed ^ 0xdead)
	dir := filepath.Join(c.Scratch, fmt.Sprintf("kill-%d", seed))
	_ = os.MkdirAll(dir, 0o755)
	defer os.RemoveAll(dir)
	dbp, logp := filepath.Join(dir, "kv.db"), filepath.Join(dir, "log")
	self, _ := os.Executable()
	cmd := exec.Command(self, "_kvwriter", dbp, logp, fmt.Sprint(seed))
	if err := cmd.Start(); err != nil {
		r.Inconclusive("cannot start kv writer: " + err.Error())
		return
	}
	// wait (generously) until the child acknowledged its first operation, then kill at a PRNG-chosen instant
	ready := false
	for i := 0; i < 600 && !ready; i++ {
		if b, err := os.ReadFile(logp); err == nil && strings.Contains(string(b), "ACK ") {
			ready = true
			break
		}
		time.Sleep(50 * time.Millisecond)
	}
	if !ready {
		_ = cmd.Process.Kill()
		_ = cmd.Wait()
		r.Inconclusive("kv writer did not acknowledge any operation within 30s")
		return
	}
	delay := time.Duration(rng.Intn(300000)) * time.Microsecond
	time.Sleep(delay)
	_ = cmd.Process.Signal(syscall.SIGKILL)
	_ = cmd.Wait()
	// model after the acknowledged prefix
	f, err := os.Open(logp)
	if err != nil {
		r.Inconclusive("kv writer wrote no log")
		return
	}
	defer f.Close()
	type op struct {
		kind, key, val string
		acked          bool
	}
	var ops []op
	sc := bufio.NewScanner(f)
	for sc.Scan() {
		fs := strings.Fields(sc.Text())
		switch {
		case len(fs) == 5 && fs[0] == "TRY":
			ops = append(ops, op{kind: fs[2], key: fs[3], val: fs[4]})
		case len(fs) == 2 && fs[0] == "ACK" && len(ops) > 0:
			ops[len(ops)-1].acked = true
		}
	}
	model := map[string]string{}
	var inflight *op
	for i := range ops {
		o := ops[i]
		if !o.acked {
			if i != len(ops)-1 {
				r.Inconclusive("kv log has an unacknowledged op that is not the last one")
				return
			}
			inflight = &ops[i]
			break
		}
		if o.kind == "put" {
			model[o.key] = o.val
		} else {
			delete(model, o.key)
		}
	}
	st, err := storage.NewDiskStorage("kv", dbp, func(v interface{}) ([]byte, error) { return []byte(v.(string)), nil }, func(b []byte) (interface{}, error) { return string(b), nil })
	if err != nil {
		r.Violate("C05.store-unreadable", "after-sigkill", fmt.Sprintf("store cannot be reopened after SIGKILL at +%v (%d ops): %v", delay, len(ops), err), map[string]any{"seed": seed, "delay_ms": delay.Milliseconds()})
		return
	}
	got := map[string]string{}
	for k := 0; k < 8; k++ {
		key := fmt.Sprintf("k%d", k)
		if v, err := st.Get(key); err == nil {
			got[key] = v.(string)
		}
	}
	alt := map[string]string{}
	for k, v := range model {
		alt[k] = v
	}
	if inflight != nil {
		if inflight.kind == "put" {
			alt[inflight.key] = inflight.val
		} else {
			delete(alt, inflight.key)
		}
	}
	eq := func(a, b map[string]string) bool {
		if len(a) != len(b) {
			return false
		}
		for k, v := range a {
			if b[k] != v {
				return false
			}
		}
		return true
	}
	r.Eval(1)
	r.Count("kill_acked_ops", int64(len(ops)))
	r.DistinctKey(fmt.Sprintf("kill/ops%d/inflight%v", len(ops)/50, inflight != nil))
	if !eq(got, model) && !eq(got, alt) {
		r.Violate("C05.acked-write-lost", "sigkill", fmt.Sprintf("after SIGKILL at +%v the reopened store is %v; acknowledged prefix gives %v (in-flight op %+v)", delay, got, model, inflight), map[string]any{"seed": seed, "delay_ms": delay.Milliseconds(), "ops": len(ops)})
	}
	if c.Batch == 0 {
		r.Sample(map[string]any{"kill_after_ms": delay.Milliseconds(), "acked_ops": len(ops), "inflight": inflight != nil})
	}
}

// c05Filter: the restart-time record filter must drop exactly the ENIIP resources whose interface is not attached
// (differential oracle against an independent filter) — records may carry several resources.
func c05Filter(c *ctxT, rng *rand.Rand, n int) {
	r := c.R
	for i := 0; i < n; i++ {
		attached := map[string]*tdaemon.ENI{}
		for j := 0; j < 1+rng.Intn(3); j++ {
			id := fmt.Sprintf("eni-%d", j)
			attached[id] = &tdaemon.ENI{ID: id, MAC: fmt.Sprintf("00:16:3e:00:00:%02x", j)}
		}
		var recs, want []tdaemon.PodResources
		shape := ""
		for p := 0; p < 1+rng.Intn(3); p++ {
			pr := tdaemon.PodResources{PodInfo: &tdaemon.PodInfo{Name: fmt.Sprintf("p%d", p), Namespace: "ns"}}
			wp := tdaemon.PodResources{PodInfo: pr.PodInfo}
			for k := 0; k < rng.Intn(5); k++ {
				e := rng.Intn(6) // eni-0..2 may be attached, 3..5 never
				it := tdaemon.ResourceItem{Type: tdaemon.ResourceTypeENIIP, IPv4: fmt.Sprintf("10.0.%d.%d", p, k)}
				keep := false
				switch rng.Intn(3) {
				case 0: // legacy record: id = mac.ip, no eni id
					it.ID = fmt.Sprintf("00:16:3e:00:00:%02x.%s", e, it.IPv4)
					for _, a := range attached {
						if a.MAC == fmt.Sprintf("00:16:3e:00:00:%02x", e) {
							keep = true
						}
					}
				case 1: // other resource types are never filtered
					it.Type = tdaemon.ResourceTypeENI
					it.ENIID = fmt.Sprintf("eni-%d", e)
					keep = true
				default:
					it.ENIID = fmt.Sprintf("eni-%d", e)
					it.ID = it.ENIID + "." + it.IPv4
					_, keep = attached[it.ENIID]
				}
				pr.Resources = append(pr.Resources, it)
				if keep {
					wp.Resources = append(wp.Resources, it)
					shape += "k"
				} else {
					shape += "d"
				}
			}
			shape += "|"
			recs = append(recs, pr)
			want = append(want, wp)
		}
		got := daemon.VerifFilterENINotFound(recs, attached)
		r.Eval(1)
		r.DistinctKey("filter/" + shape)
		ok := len(got) == len(want)
		for x := 0; ok && x < len(want); x++ {
			if len(got[x].Resources) != len(want[x].Resources) {
				ok = false
				break
			}
			for y := range want[x].Resources {
				if got[x].Resources[y] != want[x].Resources[y] {
					ok = false
				}
			}
		}
		if !ok {
			site := "other"
			if strings.Contains(shape, "dd") {
				site = "consecutive-detached"
			}
			r.Violate("C05.restart-filter-wrong", site, fmt.Sprintf("filterENINotFound kept/dropped the wrong resources for shape %s (k=attached, d=detached): got %+v want %+v", shape, got, want), map[string]any{"shape": shape})
		}
	}
}
