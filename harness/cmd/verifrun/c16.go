package main

// C16 — a retried cloud mutation reuses its idempotency token.
//
// L1: the real SimpleIdempotentKeyGenerator + the real *Options.Finish/EFLO builders are driven
//     sequentially (fail/retry histories with fresh maps) and concurrently (recorded history
//     checked with porcupine against a token-pool model, partitioned by parameter set).
// L2: the real client.OpenAPI over real ecs/eflo SDK clients whose HTTP transport is a
//     simulated cloud that implements ClientToken idempotency and injects faults; the monitor
//     looks at the tokens on the wire and at the number of resources the cloud ends with.

import (
	"bytes"
	"context"
	"encoding/json"
	"fmt"
	"io"
	"math/rand"
	"net/http"
	"net/url"
	"sort"
	"strings"
	"sync"
	"sync/atomic"
	"time"

	"github.com/aliyun/alibaba-cloud-sdk-go/services/ecs"
	"github.com/aliyun/alibaba-cloud-sdk-go/services/eflo"
	"github.com/aliyun/alibaba-cloud-sdk-go/services/vpc"
	"github.com/anishathalye/porcupine"
	"k8s.io/apimachinery/pkg/util/wait"

	"github.com/AliyunContainerService/terway/pkg/aliyun/client"
)

func init() {
	register("C16", &checkDef{level: "exploration", fn: runC16, race: func(rep string) (string, bool) {
		if strings.Contains(rep, "SimpleIdempotentKeyGenerator") || strings.Contains(rep, "pkg/aliyun/client.(*CreateNetworkInterfaceOptions)") ||
			strings.Contains(rep, "pkg/aliyun/client.(*Assign") || strings.Contains(rep, "k8s.io/utils/lru") {
			return "token-generator", true
		}
		return "", false
	}})
}

type c16Params struct {
	Kind  string // create | create-eflo | assign4 | assign6 | assign-eflo
	VSW   string
	SGs   []string
	Tags  [][2]string
	IPs   int
	IPv6s int
	Trunk bool
	ERDMA bool
	ENI   string
	RG    string
	Inst  string
	Zone  string
}

func (p c16Params) key() string { b, _ := json.Marshal(p); return string(b) }

// build constructs the options from FRESH maps/slices every time, like a caller retrying would.
func (p c16Params) issue(gen client.IdempotentKeyGen) (token string, rollback func(), err error) {
	nio := &client.NetworkInterfaceOptions{
		Trunk: p.Trunk, ERDMA: p.ERDMA, VSwitchID: p.VSW, SecurityGroupIDs: append([]string(nil), p.SGs...),
		ResourceGroupID: p.RG, IPCount: p.IPs, IPv6Count: p.IPv6s, NetworkInterfaceID: p.ENI, InstanceID: p.Inst, ZoneID: p.Zone,
	}
	if p.Tags != nil {
		nio.Tags = map[string]string{}
		for _, kv := range p.Tags {
			nio.Tags[kv[0]] = kv[1]
		}
	}
	switch p.Kind {
	case "create":
		req, rb, err := (&client.CreateNetworkInterfaceOptions{NetworkInterfaceOptions: nio}).Finish(gen)
		if err != nil {
			return "", nil, err
		}
		return req.ClientToken, rb, nil
	case "create-eflo":
		req, rb, err := (&client.CreateNetworkInterfaceOptions{NetworkInterfaceOptions: nio}).EFLO(gen)
		if err != nil {
			return "", nil, err
		}
		return req.ClientToken, rb, nil
	case "assign4":
		req, rb, err := (&client.AssignPrivateIPAddressOptions{NetworkInterfaceOptions: nio}).Finish(gen)
		if err != nil {
			return "", nil, err
		}
		return req.ClientToken, rb, nil
	case "assign6":
		req, rb, err := (&client.AssignIPv6AddressesOptions{NetworkInterfaceOptions: nio}).Finish(gen)
		if err != nil {
			return "", nil, err
		}
		return req.ClientToken, rb, nil
	case "assign-eflo":
		req, rb, err := (&client.AssignPrivateIPAddressOptions{NetworkInterfaceOptions: nio}).EFLO(gen)
		if err != nil {
			return "", nil, err
		}
		return req.ClientToken, rb, nil
	}
	return "", nil, fmt.Errorf("bad kind")
}

func genC16Params(rng *rand.Rand) c16Params {
	kinds := []string{"create", "create", "create-eflo", "assign4", "assign6", "assign-eflo"}
	p := c16Params{Kind: kinds[rng.Intn(len(kinds))]}
	p.VSW = fmt.Sprintf("vsw-%d", rng.Intn(4))
	for i, n := 0, 1+rng.Intn(5); i < n; i++ {
		p.SGs = append(p.SGs, fmt.Sprintf("sg-%d", rng.Intn(6)))
	}
	p.ENI = fmt.Sprintf("eni-%d", rng.Intn(4))
	switch p.Kind {
	case "create":
		nt := rng.Intn(9)
		if rng.Intn(5) == 0 {
			p.Tags = nil
		} else {
			p.Tags = [][2]string{}
			for i := 0; i < nt; i++ {
				p.Tags = append(p.Tags, [2]string{fmt.Sprintf("k%d", i), fmt.Sprintf("v%d", rng.Intn(3))})
			}
		}
		p.IPs = 1 + rng.Intn(10)
		p.IPv6s = rng.Intn(3)
		p.Trunk = rng.Intn(4) == 0
		p.ERDMA = rng.Intn(6) == 0
		if rng.Intn(2) == 0 {
			p.RG = "rg-1"
		}
	case "create-eflo":
		p.IPs = rng.Intn(2)
		p.Inst = fmt.Sprintf("i-%d", rng.Intn(3))
		p.Zone = fmt.Sprintf("zone-%d", rng.Intn(2))
	case "assign4":
		p.IPs = 1 + rng.Intn(10)
	case "assign6":
		p.IPv6s = 1 + rng.Intn(10)
	case "assign-eflo":
		p.IPs = 1
	}
	return p
}

func c16Site(p c16Params) string {
	t := "tags0-1"
	if len(p.Tags) >= 2 {
		t = "tags>=2"
	}
	return p.Kind + "/" + t
}

type c16Op struct {
	Issue bool // true: issue (output = token), false: putback (input token)
	Token string
}

func runC16(c *ctxT) {
	r := c.R
	rng := rand.New(rand.NewSource(r.Seed))
	nSeq, nConc, nL2 := 20000, 600, 1000
	if c.Thorough {
		nSeq, nConc, nL2 = 150000, 3000, 5000
	}
	r.Rule = "L1-seq: generated parameter sets (5 request kinds, 0..8 tags, 1..5 security groups, counts) × fail/retry scripts, every retry built from fresh maps and repeated 24×; L1-conc: 32 goroutines issue/rollback/complete on 1..4 parameter sets, history checked by porcupine (token-pool model) per parameter set; L2: real OpenAPI over SDK clients on a fault-injecting HTTP cloud. distinct = distinct (kind, #tags, script shape) classes + distinct concurrent history signatures + distinct (api, fault plan) classes"
	r.Assumptions = []string{"the cloud honours ClientToken idempotency (same token ⇒ same resource)", "a caller retrying an operation rebuilds its option structs and maps from the same values"}

	// ---------- L1 sequential ----------
	tagOrders := map[string]struct{}{}
	for i := 0; i < nSeq; i++ {
		p := genC16Params(rng)
		gen := client.NewIdempotentKeyGenerator()
		site := c16Site(p)
		t0, rb, err := p.issue(gen)
		if err != nil {
			r.Count("l1_invalid_args", 1)
			continue
		}
		r.Eval(1)
		script := rng.Intn(4)
		r.DistinctKey(fmt.Sprintf("l1/%s/t%d/s%d", p.Kind, len(p.Tags), script))
		switch script {
		case 0: // fail, retry ×24: all retries must carry t0
			cur := rb
			for k := 0; k < 24; k++ {
				cur()
				t, rb2, _ := p.issue(gen)
				if t != t0 {
					r.Violate("C16.retry-token-changed", site, fmt.Sprintf("retry %d of %s presented token %s, failed attempt had %s (params %s)", k, p.Kind, t, t0, p.key()), map[string]any{"params": p, "script": "fail-retry"})
					break
				}
				cur = rb2
			}
		case 1: // success (no rollback): next request with same params must get a NEW token
			t, _, _ := p.issue(gen)
			if t == t0 {
				r.Violate("C16.token-reused-after-success", site, "a token of a completed request was issued again: "+t, map[string]any{"params": p})
			}
		case 2: // two in flight, then both fail, then two retries: must get the two tokens back, distinct
			t1, rb1, _ := p.issue(gen)
			if t1 == t0 {
				r.Violate("C16.inflight-share", site, "two simultaneously in-flight requests share token "+t0, map[string]any{"params": p})
			}
			rb()
			rb1()
			a, _, _ := p.issue(gen)
			b, _, _ := p.issue(gen)
			got := []string{a, b}
			want := []string{t0, t1}
			sort.Strings(got)
			sort.Strings(want)
			if got[0] != want[0] || got[1] != want[1] {
				r.Violate("C16.retry-token-changed", site, fmt.Sprintf("after two failed requests the retries carried %v, failed attempts had %v", got, want), map[string]any{"params": p, "script": "two-fail"})
			}
		case 3: // different parameters must not share, even after rollback
			q := genC16Params(rng)
			if q.key() == p.key() {
				break
			}
			rb()
			tq, _, err := q.issue(gen)
			if err == nil && tq == t0 && q.Kind == p.Kind && wireDiffers(p, q) {
				r.Violate("C16.different-params-share", site, fmt.Sprintf("requests %s and %s share token %s", p.key(), q.key(), tq), map[string]any{"p": p, "q": q})
			}
		}
		if i < 2 {
			r.Sample(map[string]any{"layer": "L1-seq", "params": p, "script": script, "first_token": t0})
		}
		if len(p.Tags) >= 2 && p.Kind == "create" {
			// evidence: how many distinct tag orders did Go's map iteration produce for this request?
			for k := 0; k < 4; k++ {
				req, rbx, err := buildCreate(p, gen)
				if err == nil {
					var ks []string
					for _, t := range *req.Tag {
						ks = append(ks, t.Key)
					}
					tagOrders[fmt.Sprintf("%d:%s", len(p.Tags), strings.Join(ks, ","))] = struct{}{}
					rbx()
				}
			}
		}
	}
	r.SetExtra("l1_distinct_tag_orders_observed", len(tagOrders))

	// ---------- L1 concurrent + porcupine ----------
	// many short histories for the linearizability checker, fewer big ones for the online monitors + race detector
	for h := 0; h < nConc; h++ {
		c16Concurrent(c, rand.New(rand.NewSource(r.Seed+int64(h)*7919)), h, h%5 != 0)
	}

	// ---------- L2 end to end ----------
	for i := 0; i < nL2; i++ {
		c16L2(c, rand.New(rand.NewSource(r.Seed^int64(i)*104729+1)), i)
	}
}

// wireDiffers: do p and q differ in a field that reaches the request for their kind?
func wireDiffers(p, q c16Params) bool {
	switch p.Kind {
	case "create":
		pp, qq := p, q
		pp.ENI, qq.ENI = "", ""
		pp.Inst, qq.Inst, pp.Zone, qq.Zone = "", "", "", ""
		if pp.IPs <= 1 && qq.IPs <= 1 {
			pp.IPs, qq.IPs = 0, 0
		}
		return pp.key() != qq.key()
	case "create-eflo":
		sg := func(x c16Params) string { return x.SGs[0] }
		return p.VSW != q.VSW || sg(p) != sg(q) || p.Inst != q.Inst || p.Zone != q.Zone
	case "assign4":
		return p.ENI != q.ENI || p.IPs != q.IPs
	case "assign6":
		return p.ENI != q.ENI || p.IPv6s != q.IPv6s
	case "assign-eflo":
		return p.ENI != q.ENI
	}
	return true
}

func buildCreate(p c16Params, gen client.IdempotentKeyGen) (*ecs.CreateNetworkInterfaceRequest, func(), error) {
	nio := &client.NetworkInterfaceOptions{VSwitchID: p.VSW, SecurityGroupIDs: p.SGs, IPCount: p.IPs, Tags: map[string]string{}}
	for _, kv := range p.Tags {
		nio.Tags[kv[0]] = kv[1]
	}
	return (&client.CreateNetworkInterfaceOptions{NetworkInterfaceOptions: nio}).Finish(gen)
}

func c16Concurrent(c *ctxT, rng *rand.Rand, h int, small bool) {
	r := c.R
	gen := client.NewIdempotentKeyGenerator()
	nsets := 1 + rng.Intn(4)
	var sets []c16Params
	for len(sets) < nsets {
		p := genC16Params(rng)
		if _, _, err := p.issue(client.NewIdempotentKeyGenerator()); err != nil {
			continue
		}
		dup := false
		for _, s := range sets {
			if !wireDiffers(s, p) || s.Kind != p.Kind && false {
				dup = true
			}
			if s.Kind == p.Kind && !wireDiffers(s, p) {
				dup = true
			}
		}
		if !dup {
			sets = append(sets, p)
		}
	}
	start := time.Now()
	var mu sync.Mutex
	var ops []porcupine.Operation
	var evs int64
	held := map[string]int{} // token -> set index, tokens currently in flight
	var wg sync.WaitGroup
	G, K := 8+rng.Intn(25), 12
	if small {
		G, K = 2+rng.Intn(4), 3+rng.Intn(3)
		if nsets > 2 {
			sets = sets[:2]
		}
	}
	seeds := make([]int64, G)
	for i := range seeds {
		seeds[i] = rng.Int63()
	}
	for g := 0; g < G; g++ {
		wg.Add(1)
		go func(g int) {
			defer wg.Done()
			lr := rand.New(rand.NewSource(seeds[g]))
			for k := 0; k < K; k++ {
				si := lr.Intn(len(sets))
				t0 := time.Since(start).Nanoseconds()
				tok, rb, err := sets[si].issue(gen)
				t1 := time.Since(start).Nanoseconds()
				if err != nil {
					continue
				}
				atomic.AddInt64(&evs, 1)
				mu.Lock()
				if other, inflight := held[tok]; inflight {
					r.Violate("C16.inflight-share", c16Site(sets[si]), fmt.Sprintf("token %s issued to two in-flight requests (param sets %d and %d)", tok, other, si), map[string]any{"history": h, "sets": sets})
				}
				held[tok] = si
				ops = append(ops, porcupine.Operation{ClientId: g, Input: c16In{Set: si, Issue: true}, Call: t0, Output: tok, Return: t1})
				mu.Unlock()
				if lr.Intn(3) == 0 {
					time.Sleep(time.Duration(lr.Intn(200)) * time.Microsecond)
				}
				if lr.Intn(100) < 60 {
					// failure → rollback. The token stops being "in flight" before it is put back.
					mu.Lock()
					delete(held, tok)
					mu.Unlock()
					t0 := time.Since(start).Nanoseconds()
					rb()
					t1 := time.Since(start).Nanoseconds()
					mu.Lock()
					ops = append(ops, porcupine.Operation{ClientId: g, Input: c16In{Set: si, Issue: false, Token: tok}, Call: t0, Output: "", Return: t1})
					mu.Unlock()
				} else {
					mu.Lock()
					delete(held, tok) // completed successfully: consumed for ever
					mu.Unlock()
				}
			}
		}(g)
	}
	wg.Wait()
	r.Eval(evs)
	// counting rule: a token may be issued at most (#putbacks of it + 1) times
	issued, put := map[string]int{}, map[string]int{}
	setOf := map[string]int{}
	for _, o := range ops {
		in := o.Input.(c16In)
		if in.Issue {
			tok := o.Output.(string)
			issued[tok]++
			if s, ok := setOf[tok]; ok && s != in.Set {
				r.Violate("C16.different-params-share", c16Site(sets[in.Set]), fmt.Sprintf("token %s served parameter sets %d and %d", tok, s, in.Set), map[string]any{"history": h, "sets": sets})
			}
			setOf[tok] = in.Set
		} else {
			put[in.Token]++
		}
	}
	for t, n := range issued {
		if n > put[t]+1 {
			r.Violate("C16.token-reused-after-success", c16Site(sets[setOf[t]]), fmt.Sprintf("token %s issued %d times with only %d rollbacks", t, n, put[t]), map[string]any{"history": h})
		}
	}
	if small {
		r.Count("l1_conc_porcupine_histories", 1)
		bySet := map[int][]porcupine.Operation{}
		for _, o := range ops {
			bySet[o.Input.(c16In).Set] = append(bySet[o.Input.(c16In).Set], o)
		}
		for si, sub := range bySet {
			res, _ := porcupine.CheckOperationsVerbose(c16Model, sub, 20*time.Second)
			r.Count("l1_conc_porcupine_partitions", 1)
			switch res {
			case porcupine.Illegal:
				r.Violate("C16.history-not-linearizable", "concurrent/"+c16Site(sets[si]), fmt.Sprintf("issue/rollback history %d, parameter set %d (%d ops, %d goroutines) is not linearizable against the token-pool model: some retry did not get a rolled-back token although one was available, or got one that was not", h, si, len(sub), G), map[string]any{"history": h, "set": sets[si], "ops": opsDump(sub)})
			case porcupine.Unknown:
				r.Inconclusive(fmt.Sprintf("porcupine timeout on C16 history %d set %d", h, si))
			}
		}
	}
	// signature: per set sequence of issue/put in return order, tokens renamed
	sort.Slice(ops, func(i, j int) bool { return ops[i].Return < ops[j].Return })
	ren := map[string]int{}
	var sb strings.Builder
	overl := 0
	for i, o := range ops {
		in := o.Input.(c16In)
		tk := in.Token
		if in.Issue {
			tk = o.Output.(string)
		}
		if _, ok := ren[tk]; !ok {
			ren[tk] = len(ren)
		}
		fmt.Fprintf(&sb, "%d%v%d;", in.Set, in.Issue, ren[tk])
		if i > 0 && o.Call < ops[i-1].Return {
			overl++
		}
	}
	if overl > 0 {
		r.DistinctKey(fmt.Sprintf("conc/%x", hashStr(sb.String())))
	}
	r.Count("l1_conc_overlapping_op_pairs", int64(overl))
	r.Count("l1_conc_ops", int64(len(ops)))
	if h == 0 {
		r.Sample(map[string]any{"layer": "L1-conc", "goroutines": G, "param_sets": nsets, "ops": len(ops), "overlapping_pairs": overl})
	}
}

type c16In struct {
	Set   int
	Issue bool
	Token string
}

func opsDump(ops []porcupine.Operation) []string {
	var out []string
	for i, o := range ops {
		if i > 200 {
			break
		}
		out = append(out, fmt.Sprintf("c%d [%d,%d] %+v -> %v", o.ClientId, o.Call, o.Return, o.Input, o.Output))
	}
	return out
}

// token-pool model per parameter set: state = sorted list of rolled-back tokens.
var c16Model = porcupine.Model{
	Partition: func(history []porcupine.Operation) [][]porcupine.Operation {
		m := map[int][]porcupine.Operation{}
		for _, o := range history {
			s := o.Input.(c16In).Set
			m[s] = append(m[s], o)
		}
		var out [][]porcupine.Operation
		for _, v := range m {
			out = append(out, v)
		}
		return out
	},
	Init: func() any { return "" },
	Step: func(state, input, output any) (bool, any) {
		st := state.(string)
		var pool []string
		if st != "" {
			pool = strings.Split(st, ",")
		}
		in := input.(c16In)
		if !in.Issue {
			pool = append(pool, in.Token)
			sort.Strings(pool)
			return true, strings.Join(pool, ",")
		}
		tok := output.(string)
		for i, p := range pool {
			if p == tok {
				np := append(append([]string{}, pool[:i]...), pool[i+1:]...)
				return true, strings.Join(np, ",")
			}
		}
		// a fresh token is only right when nothing was available for reuse
		return len(pool) == 0, st
	},
	Equal: func(a, b any) bool { return a.(string) == b.(string) },
}

// ---------------- L2: HTTP cloud ----------------

type c16Cloud struct {
	mu        sync.Mutex
	byToken   map[string]string // token -> resource id
	resources map[string]string // resource id -> logical op (param key) that created it
	wire      []c16Wire
	plan      []string // fault per mutating attempt: ok | badparam | throttle | internal | neterr | after-effect-err | after-effect-neterr
	n         int
}

type c16Wire struct {
	Action string
	Token  string
	Fault  string
	Params string
}

type c16Clients struct {
	e *ecs.Client
	f *eflo.Client
	v *vpc.Client
}

func (c *c16Clients) ECS() *ecs.Client   { return c.e }
func (c *c16Clients) VPC() *vpc.Client   { return c.v }
func (c *c16Clients) EFLO() *eflo.Client { return c.f }

func (cl *c16Cloud) RoundTrip(req *http.Request) (*http.Response, error) {
	vals := req.URL.Query()
	if req.Body != nil {
		b, _ := io.ReadAll(req.Body)
		if fv, err := url.ParseQuery(string(b)); err == nil {
			for k, v := range fv {
				vals[k] = v
			}
		}
	}
	action := vals.Get("Action")
	tok := vals.Get("ClientToken")
	// parameters that identify the logical request (signature noise removed)
	var ps []string
	for k, v := range vals {
		switch k {
		case "Signature", "SignatureNonce", "Timestamp", "ClientToken", "AccessKeyId", "SignatureMethod", "SignatureVersion", "Format", "Version", "SignatureType":
			continue
		}
		ps = append(ps, k+"="+strings.Join(v, "|"))
	}
	sort.Strings(ps)
	cl.mu.Lock()
	defer cl.mu.Unlock()
	resp := func(code int, body any) (*http.Response, error) {
		b, _ := json.Marshal(body)
		return &http.Response{StatusCode: code, Status: fmt.Sprintf("%d", code), Body: io.NopCloser(bytes.NewReader(b)), Header: http.Header{"Content-Type": []string{"application/json"}}, Request: req, Proto: "HTTP/1.1", ProtoMajor: 1, ProtoMinor: 1}, nil
	}
	mutating := map[string]bool{"CreateNetworkInterface": true, "AssignPrivateIpAddresses": true, "AssignIpv6Addresses": true, "CreateElasticNetworkInterface": true, "AssignLeniPrivateIpAddress": true}
	if action == "ListLeniPrivateIpAddresses" {
		return resp(200, map[string]any{"RequestId": "r", "Code": 0, "Content": map[string]any{"Data": []any{map[string]any{"IpName": vals.Get("IpName"), "Status": "Available", "PrivateIpAddress": "10.9.9.9", "ElasticNetworkInterfaceId": vals.Get("ElasticNetworkInterfaceId")}}}})
	}
	if !mutating[action] {
		return resp(200, map[string]any{"RequestId": "r", "Code": 0, "Content": map[string]any{"Data": []any{}}})
	}
	fault := "ok"
	if cl.n < len(cl.plan) {
		fault = cl.plan[cl.n]
	}
	cl.n++
	cl.wire = append(cl.wire, c16Wire{Action: action, Token: tok, Fault: fault, Params: strings.Join(ps, "&")})
	apply := func() string {
		if id, ok := cl.byToken[tok]; ok && tok != "" {
			return id
		}
		id := fmt.Sprintf("res-%d", len(cl.resources)+1)
		cl.resources[id] = strings.Join(ps, "&")
		if tok != "" {
			cl.byToken[tok] = id
		}
		return id
	}
	errBody := func(code string) map[string]any {
		return map[string]any{"RequestId": "req-err", "Code": code, "Message": "injected " + code, "HostId": "ecs.sim"}
	}
	switch fault {
	case "badparam":
		return resp(400, errBody("InvalidParameter"))
	case "throttle":
		return resp(400, errBody("Throttling"))
	case "internal":
		return resp(400, errBody("InternalError"))
	case "forbidden":
		return resp(403, errBody("Forbidden.RAM"))
	case "eflo-code":
		if strings.Contains(action, "Elastic") || strings.Contains(action, "Leni") {
			return resp(200, map[string]any{"RequestId": "req-err", "Code": 1013, "Message": "injected business error", "Content": map[string]any{}})
		}
	case "eflo-code-after-effect":
		if strings.Contains(action, "Elastic") || strings.Contains(action, "Leni") {
			apply()
			return resp(200, map[string]any{"RequestId": "req-err", "Code": 1013, "Message": "injected business error", "Content": map[string]any{}})
		}
	case "neterr":
		return nil, fmt.Errorf("injected: connection reset")
	case "after-effect-err":
		apply()
		return resp(400, errBody("InternalError"))
	case "after-effect-neterr":
		apply()
		return nil, fmt.Errorf("injected: timeout awaiting response")
	}
	id := apply()
	switch action {
	case "CreateNetworkInterface":
		return resp(200, map[string]any{"RequestId": "r", "NetworkInterfaceId": id, "MacAddress": "00:16:3e:00:00:01", "PrivateIpAddress": "10.0.0.5", "Type": "Secondary", "Status": "Available",
			"PrivateIpSets": map[string]any{"PrivateIpSet": []any{map[string]any{"PrivateIpAddress": "10.0.0.5", "Primary": true}}}, "Ipv6Sets": map[string]any{"Ipv6Set": []any{}}})
	case "AssignPrivateIpAddresses":
		return resp(200, map[string]any{"RequestId": "r", "AssignedPrivateIpAddressesSet": map[string]any{"NetworkInterfaceId": vals.Get("NetworkInterfaceId"),
			"PrivateIpSet": map[string]any{"PrivateIpAddress": []string{"10.0.0." + fmt.Sprint(10+len(cl.resources)%200)}}}})
	case "AssignIpv6Addresses":
		return resp(200, map[string]any{"RequestId": "r", "NetworkInterfaceId": vals.Get("NetworkInterfaceId"), "Ipv6Sets": map[string]any{"Ipv6Address": []string{fmt.Sprintf("fd00::%x", 16+len(cl.resources))}}})
	case "CreateElasticNetworkInterface":
		return resp(200, map[string]any{"RequestId": "r", "Code": 0, "Message": "ok", "Content": map[string]any{"ElasticNetworkInterfaceId": id, "NodeId": vals.Get("NodeId")}})
	case "AssignLeniPrivateIpAddress":
		return resp(200, map[string]any{"RequestId": "r", "Code": 0, "Message": "ok", "Content": map[string]any{"ElasticNetworkInterfaceId": vals.Get("ElasticNetworkInterfaceId"), "IpName": "ip-" + id}})
	}
	return resp(200, map[string]any{"RequestId": "r", "Code": 0})
}

func c16L2(c *ctxT, rng *rand.Rand, idx int) {
	r := c.R
	cloud := &c16Cloud{byToken: map[string]string{}, resources: map[string]string{}}
	ecsC, err1 := ecs.NewClientWithAccessKey("cn-sim", "ak", "sk")
	efloC, err2 := eflo.NewClientWithAccessKey("cn-sim", "ak", "sk")
	if err1 != nil || err2 != nil {
		r.Inconclusive(fmt.Sprintf("cannot build SDK clients offline: %v %v", err1, err2))
		return
	}
	ecsC.Domain, efloC.Domain = "ecs.sim.local", "eflo.sim.local"
	ecsC.SetTransport(cloud)
	efloC.SetTransport(cloud)
	ecsC.GetConfig().AutoRetry = false
	efloC.GetConfig().AutoRetry = false
	api, err := client.New(&c16Clients{e: ecsC, f: efloC}, client.LimitConfig{})
	if err != nil {
		r.Inconclusive("client.New: " + err.Error())
		return
	}
	kinds := []string{"create", "create", "assign4", "assign6", "create-eflo", "assign-eflo"}
	kind := kinds[rng.Intn(len(kinds))]
	p := genC16Params(rng)
	for p.Kind != kind {
		p = genC16Params(rng)
	}
	if p.Kind == "create-eflo" {
		p.IPs = 1
	}
	faults := []string{"badparam", "throttle", "internal", "neterr", "after-effect-err", "after-effect-neterr", "forbidden"}
	if strings.HasSuffix(p.Kind, "eflo") {
		faults = append(faults, "eflo-code", "eflo-code", "eflo-code-after-effect")
	}
	nf := 1 + rng.Intn(4)
	for i := 0; i < nf; i++ {
		cloud.plan = append(cloud.plan, faults[rng.Intn(len(faults))])
	}
	bo := wait.Backoff{Duration: time.Millisecond, Factor: 1, Steps: 1 + rng.Intn(3)}
	v2 := rng.Intn(2) == 0
	call := func(ctx context.Context) error {
		// options rebuilt from fresh maps on every logical retry
		nio := &client.NetworkInterfaceOptions{Trunk: p.Trunk, ERDMA: p.ERDMA, VSwitchID: p.VSW, SecurityGroupIDs: append([]string(nil), p.SGs...), ResourceGroupID: p.RG,
			IPCount: p.IPs, IPv6Count: p.IPv6s, NetworkInterfaceID: p.ENI, InstanceID: p.Inst, ZoneID: p.Zone}
		if p.Tags != nil {
			nio.Tags = map[string]string{}
			for _, kv := range p.Tags {
				nio.Tags[kv[0]] = kv[1]
			}
		}
		b := bo
		var err error
		func() {
			defer func() {
				if e := recover(); e != nil {
					err = fmt.Errorf("panic: %v", e)
					r.Violate("C16.panic", p.Kind, fmt.Sprint(e), map[string]any{"params": p})
				}
			}()
			switch p.Kind {
			case "create":
				_, err = api.CreateNetworkInterface(ctx, &client.CreateNetworkInterfaceOptions{NetworkInterfaceOptions: nio, Backoff: &b})
			case "assign4":
				// both generations of the call are in use (node agent: the first, controllers: the second)
				if v2 {
					_, err = api.AssignPrivateIPAddress2(ctx, &client.AssignPrivateIPAddressOptions{NetworkInterfaceOptions: nio, Backoff: &b})
				} else {
					_, err = api.AssignPrivateIPAddress(ctx, &client.AssignPrivateIPAddressOptions{NetworkInterfaceOptions: nio, Backoff: &b})
				}
			case "assign6":
				if v2 {
					_, err = api.AssignIpv6Addresses2(ctx, &client.AssignIPv6AddressesOptions{NetworkInterfaceOptions: nio, Backoff: &b})
				} else {
					_, err = api.AssignIpv6Addresses(ctx, &client.AssignIPv6AddressesOptions{NetworkInterfaceOptions: nio, Backoff: &b})
				}
			case "create-eflo":
				_, err = api.CreateElasticNetworkInterfaceV2(ctx, &client.CreateNetworkInterfaceOptions{NetworkInterfaceOptions: nio, Backoff: &b})
			case "assign-eflo":
				_, err = api.AssignLeniPrivateIPAddress2(ctx, &client.AssignPrivateIPAddressOptions{NetworkInterfaceOptions: nio, Backoff: &b})
			}
		}()
		return err
	}
	ok := false
	attempts := 0
	var lastErr error
	if rng.Intn(4) == 0 {
		// the first attempt is turned down by the client-side rate limiter (bucket empty, deadline shorter than the
		// refill): nothing reaches the wire, its token is handed back once
		lim := client.LimitConfig{}
		for _, name := range []string{client.APICreateNetworkInterface, client.APIAssignPrivateIPAddress, client.APIAssignIPv6Addresses, client.APICreateElasticNetworkInterface, client.APIAssignLeniPrivateIPAddress} {
			lim[name] = client.Limit{QPS: 100, Burst: 1}
		}
		api.RateLimiter = client.NewRateLimiter(lim)
		for name := range lim {
			_ = api.RateLimiter.Wait(context.Background(), name)
		}
		sctx, scancel := context.WithTimeout(context.Background(), 2*time.Millisecond)
		if e := call(sctx); e != nil {
			r.Count("l2_attempts_refused_by_client_rate_limiter", 1)
		} else {
			// (AssignIpv6Addresses / AssignIpv6Addresses2 test the wrong error variable after the limiter and send the
			// request anyway; not a token matter: the attempt simply counts as the successful one)
			ok = true
			r.Count("l2_attempts_sent_despite_rate_limiter_refusal", 1)
		}
		attempts++
		scancel()
	}
	for try := 0; try < 12 && !ok; try++ {
		ctx := context.Background()
		if lastErr = call(ctx); lastErr == nil {
			ok = true
		}
		attempts++
	}
	cloud.mu.Lock()
	defer cloud.mu.Unlock()
	r.Eval(int64(len(cloud.wire)))
	site := c16Site(p)
	if !ok {
		r.Inconclusive(fmt.Sprintf("L2 case %d never succeeded after %d logical tries (harness problem): plan %v wire %+v kind %s lastErr %v", idx, attempts, cloud.plan, cloud.wire, p.Kind, lastErr))
		return
	}
	toks := map[string]int{}
	for _, w := range cloud.wire {
		toks[w.Token]++
		if w.Token == "" {
			r.Violate("C16.no-token-on-wire", site, "mutating request without ClientToken: "+w.Action, map[string]any{"params": p})
		}
	}
	if len(toks) != 1 {
		r.Violate("C16.retry-token-changed", "wire/"+site, fmt.Sprintf("one logical %s presented %d different tokens over %d wire attempts (plan %v)", p.Kind, len(toks), len(cloud.wire), cloud.plan), map[string]any{"params": p, "plan": cloud.plan, "wire": cloud.wire})
	}
	if len(cloud.resources) != 1 {
		r.Violate("C16.duplicate-resource", "wire/"+site, fmt.Sprintf("cloud ended with %d resources for one logical %s (plan %v)", len(cloud.resources), p.Kind, cloud.plan), map[string]any{"params": p, "plan": cloud.plan, "wire": cloud.wire})
	}
	// a second logical operation with the same parameters after success must use a new token
	before := len(cloud.wire)
	cloud.plan = nil
	cloud.mu.Unlock()
	err = call(context.Background())
	cloud.mu.Lock()
	if err == nil && len(cloud.wire) > before {
		if _, seen := toks[cloud.wire[before].Token]; seen {
			r.Violate("C16.token-reused-after-success", "wire/"+site, "second logical operation reused the token of a completed one", map[string]any{"params": p})
		}
	}
	r.DistinctKey(fmt.Sprintf("l2/%s/%s/steps%d", p.Kind, strings.Join(cloud.plan, ","), bo.Steps) + fmt.Sprint(planSig(cloud.wire)))
	if idx < 2 {
		r.Sample(map[string]any{"layer": "L2", "params": p, "wire": cloud.wire})
	}
	r.Count("l2_wire_attempts", int64(len(cloud.wire)))
	r.Count("l2_logical_ops", 1)
}

func planSig(w []c16Wire) string {
	var s []string
	for _, x := range w {
		s = append(s, x.Fault)
	}
	return strings.Join(s, ",")
}
