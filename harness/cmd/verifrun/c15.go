package main

// C15 — user-controlled input can be rejected but can never crash a component.
// Child process per batch; every input is logged ("CASE …") before the call so that even a
// process-fatal fault is attributable; panics are also recovered and recorded in-process.

import (
	"context"
	"encoding/json"
	"fmt"
	"math/big"
	"math/rand"
	"net/netip"
	"runtime/debug"
	"strings"
	"time"

	admissionv1 "k8s.io/api/admission/v1"
	corev1 "k8s.io/api/core/v1"
	"k8s.io/apimachinery/pkg/api/resource"
	metav1 "k8s.io/apimachinery/pkg/apis/meta/v1"
	"k8s.io/apimachinery/pkg/runtime"
	k8stypes "k8s.io/apimachinery/pkg/types"
	"k8s.io/apimachinery/pkg/util/sets"
	"sigs.k8s.io/controller-runtime/pkg/client"
	"sigs.k8s.io/controller-runtime/pkg/webhook/admission"

	"github.com/AliyunContainerService/terway/daemon"
	aliyunClient "github.com/AliyunContainerService/terway/pkg/aliyun/client"
	"github.com/AliyunContainerService/terway/pkg/apis/network.alibabacloud.com/v1beta1"
	podeni "github.com/AliyunContainerService/terway/pkg/controller/pod-eni"
	"github.com/AliyunContainerService/terway/pkg/controller/status"
	"github.com/AliyunContainerService/terway/pkg/controller/webhook"
	"github.com/AliyunContainerService/terway/pkg/eni"
	"github.com/AliyunContainerService/terway/pkg/k8s"
	"github.com/AliyunContainerService/terway/pkg/storage"
	"github.com/AliyunContainerService/terway/rpc"
	"github.com/AliyunContainerService/terway/types"
	"github.com/AliyunContainerService/terway/types/controlplane"
	tdaemon "github.com/AliyunContainerService/terway/types/daemon"

	"verifharness/apisim"
)

func init() {
	register("C15", &checkDef{level: "exploration", fn: runC15,
		batches:  func(th bool) int { return map[bool]int{false: 8, true: 32}[th] },
		parallel: func(bool) int { return 8 },
	})
}

// guard runs f, records a recovered panic as a violation of the entry point's class.
func guard(c *ctxT, entry string, input any, f func()) {
	defer func() {
		if e := recover(); e != nil {
			st := string(debug.Stack())
			c.R.Violate("C15.panic", entry+"@"+topTerwayFrame(st), fmt.Sprintf("panic: %v on input %s", e, shorten(fmt.Sprintf("%q", fmt.Sprint(input)), 300)), map[string]any{"entry": entry, "input": input, "stack": shorten(st, 3000)})
		}
	}()
	f()
}

func shorten(s string, n int) string {
	if len(s) > n {
		return s[:n] + "…"
	}
	return s
}

// topTerwayFrame: innermost terway function in a stack (after the panic frames).
func topTerwayFrame(st string) string {
	idx := strings.Index(st, "panic(")
	if idx >= 0 {
		st = st[idx:]
	}
	for _, line := range strings.Split(st, "\n") {
		line = strings.TrimSpace(line)
		if strings.HasPrefix(line, "github.com/AliyunContainerService/terway/") {
			f := trimPkg(line)
			if i := strings.LastIndex(f, "("); i > 0 {
				f = f[:i]
			}
			return f
		}
	}
	return "no-terway-frame"
}

var fuzzAlphabet = []string{"", " ", "\t", "\n", "0", "1", "-1", "10", "100", "1.5", ".5", "5.", "1e3", "1e400", "0x10", "+5", "NaN", "Inf", "-Inf", "∞",
	"K", "M", "G", "T", "B", "KB", "KiB", "Mi", "k", "m", "Kb", "MB ", " M", "10M", "10 M", "1.5G", "1,5M", "10MM", "M10", "١٠M", "１０", "true", "false", "null",
	"{}", "[]", "{", "}", "[", "]", "\"", "\\", "\x00", "\xff\xfe", "é", strings.Repeat("9", 400), strings.Repeat("a", 5000), strings.Repeat("[", 2000)}

func fuzzString(rng *rand.Rand) string {
	switch rng.Intn(6) {
	case 0:
		n := rng.Intn(24)
		b := make([]byte, n)
		rng.Read(b)
		return string(b)
	case 1:
		return fuzzAlphabet[rng.Intn(len(fuzzAlphabet))]
	case 2:
		return fuzzAlphabet[rng.Intn(len(fuzzAlphabet))] + fuzzAlphabet[rng.Intn(len(fuzzAlphabet))]
	case 3:
		return fmt.Sprintf("%d", rng.Int63()-rng.Int63())
	case 4:
		return fmt.Sprintf("%g%s", rng.Float64()*float64(rng.Intn(100000)), []string{"", "k", "M", "g", "T", "b", "KB", "mib", "X", " "}[rng.Intn(10)])
	default:
		s := ""
		for i, n := 0, rng.Intn(4); i < n; i++ {
			s += fuzzAlphabet[rng.Intn(len(fuzzAlphabet))]
		}
		return s
	}
}

// mutateJSON applies structured mutations to a valid JSON text.
func mutateJSON(rng *rand.Rand, valid string) string {
	switch rng.Intn(9) {
	case 0:
		return valid
	case 1:
		if len(valid) == 0 {
			return valid
		}
		return valid[:rng.Intn(len(valid))]
	case 2:
		return valid + valid
	case 3:
		return fuzzString(rng)
	case 4:
		// swap a value type
		repl := []string{"null", "1", "-1", "\"x\"", "[]", "{}", "true", "1e999", "[[[[]]]]", "{\"a\":{\"b\":null}}"}
		toks := []string{"\"eth0\"", "true", "false", "[", "{", "1", "\"vsw-1\"", "\"0\"", "null"}
		t := toks[rng.Intn(len(toks))]
		if i := strings.Index(valid, t); i >= 0 {
			return valid[:i] + repl[rng.Intn(len(repl))] + valid[i+len(t):]
		}
		return valid
	case 5:
		b := []byte(valid)
		if len(b) > 0 {
			b[rng.Intn(len(b))] = byte(rng.Intn(256))
		}
		return string(b)
	case 6:
		return strings.Repeat("[", 100+rng.Intn(5000)) + valid
	case 7:
		return strings.ReplaceAll(valid, "\"", "'")
	default:
		return strings.Replace(valid, ":", ":"+fuzzAlphabet[rng.Intn(len(fuzzAlphabet))], 1)
	}
}

func genAnnotations(rng *rand.Rand) map[string]string {
	a := map[string]string{}
	keys := []string{"k8s.aliyun.com/ingress-bandwidth", "k8s.aliyun.com/egress-bandwidth", types.PodENI, types.NetworkPriority, types.PodIPReservation,
		types.PodNetworks, types.PodNetworksRequest, types.PodNetworking, "cpuSet", types.PodIPs, types.PodAllocType, "k8s.aliyun.com/pod-eni-allocated"}
	validNetworks := `{"podNetworks":[{"interface":"eth0","vSwitchOptions":["vsw-1"],"securityGroupIDs":["sg-1"],"allocationType":{"type":"Fixed","releaseStrategy":"TTL","releaseAfter":"10m"},"extraRoutes":[{"dst":"10.0.0.0/8"}]}]}`
	validReq := `[{"interfaceName":"eth0","network":"pn-1","defaultRoute":true,"routes":[{"dst":"10.0.0.0/8"}]}]`
	validCPU := `{"app":{"0":"0-3"},"sidecar":{"0":"4-5"}}`
	for i, n := 0, rng.Intn(6); i < n; i++ {
		k := keys[rng.Intn(len(keys))]
		switch k {
		case types.PodNetworks:
			a[k] = mutateJSON(rng, validNetworks)
		case types.PodNetworksRequest:
			a[k] = mutateJSON(rng, validReq)
		case "cpuSet":
			switch rng.Intn(4) {
			case 0:
				a[k] = fmt.Sprintf(`{"app":{"%d":"0-3"}}`, rng.Intn(12)-3)
			case 1:
				a[k] = fmt.Sprintf(`{"app":{"%s":"x"}}`, fuzzAlphabet[rng.Intn(20)])
			default:
				a[k] = mutateJSON(rng, validCPU)
			}
		default:
			a[k] = fuzzString(rng)
		}
	}
	return a
}

func genFuzzPod(rng *rand.Rand, i int) *corev1.Pod {
	p := &corev1.Pod{ObjectMeta: metav1.ObjectMeta{Name: fmt.Sprintf("p%d", i), Namespace: []string{"default", "kube-system", "ns1"}[rng.Intn(3)], UID: k8stypes.UID(fmt.Sprintf("uid-%d", i)),
		Annotations: genAnnotations(rng), Labels: map[string]string{}}}
	if rng.Intn(10) == 0 {
		p.Annotations = nil
	}
	if rng.Intn(4) == 0 {
		p.Labels["app"] = "x"
	}
	if rng.Intn(12) == 0 {
		p.Labels[types.IgnoreByTerway] = fuzzString(rng)
	}
	for j, n := 0, rng.Intn(3); j < n; j++ {
		p.OwnerReferences = append(p.OwnerReferences, metav1.OwnerReference{Kind: []string{"StatefulSet", "ReplicaSet", "", "statefulset", "Job", fuzzString(rng)}[rng.Intn(6)], Name: "o"})
	}
	for j, n := 0, rng.Intn(3); j < n; j++ {
		ct := corev1.Container{Name: fmt.Sprintf("c%d", j)}
		if rng.Intn(3) == 0 {
			ct.Resources.Limits = corev1.ResourceList{corev1.ResourceName("aliyun/erdma"): resource.MustParse(fmt.Sprint(rng.Intn(3)))}
		}
		p.Spec.Containers = append(p.Spec.Containers, ct)
	}
	p.Spec.NodeName = []string{"node-1", "node-2", ""}[rng.Intn(3)]
	p.Spec.HostNetwork = rng.Intn(10) == 0
	p.Status.Phase = []corev1.PodPhase{corev1.PodRunning, corev1.PodPending, corev1.PodSucceeded, corev1.PodFailed, ""}[rng.Intn(5)]
	p.Status.PodIP = []string{"", "10.0.0.5", "fd00::5", "bad", "10.0.0.5/24"}[rng.Intn(5)]
	for j, n := 0, rng.Intn(3); j < n; j++ {
		p.Status.PodIPs = append(p.Status.PodIPs, corev1.PodIP{IP: []string{"", "10.0.0.5", "fd00::5", "bad", "999.1.1.1"}[rng.Intn(5)]})
	}
	return p
}

func runC15(c *ctxT) {
	r := c.R
	rng := rand.New(rand.NewSource(r.Seed*1000003 + int64(c.Batch)))
	scale := 1
	if c.Thorough {
		scale = 12
	}
	r.Rule = "grammar-aware generators per user-writable field (raw bytes, structured mutations of valid values, boundary numerics, every unit spelling) driven into: parseBandwidth, convertPod/GetPod/GetLocalPods, ParsePodNetworksFrom{Annotation,Request}, podNumaHints + getENIIndex, mutating+validating webhook handlers, MergeConfigAndUnmarshal/ConfigFromConfigMap/Validate/getPoolConfig, Local.load/parseNetworkResource/filterENINotFound/GetIPInfo/ReleaseIP on arbitrary stored records, BuildIPNet/ToIPSet/ToIPNetSet, plugin getCmdArgs/parseSetupConf (in-package). distinct = distinct (entry point, input shape class, outcome) classes"
	r.Assumptions = []string{"only the entry points named by the property's anchors are driven", "generators are grammar-aware, not coverage-guided"}

	c15Bandwidth(c, rng, 30000*scale)
	c15Pods(c, rng, 4000*scale)
	c15Annotations(c, rng, 20000*scale)
	c15Webhook(c, rng, 2500*scale)
	c15Config(c, rng, 6000*scale)
	c15Records(c, rng, 1500*scale)
	c15Helpers(c, rng, 20000*scale)
	c15StoredPodENI(c, rng, 40*scale)
	if c.Batch == 0 {
		runInpkg(c, "pluginterway.test", "TestVerifC15Plugin", false)
	}
}

// ---------- bandwidth ----------
func c15Bandwidth(c *ctxT, rng *rand.Rand, n int) {
	r := c.R
	units := map[string]int{"": 0, "B": 0, "K": 10, "KB": 10, "KIB": 10, "M": 20, "MB": 20, "MIB": 20, "G": 30, "GB": 30, "GIB": 30, "T": 40, "TB": 40, "TIB": 40}
	spell := func(u string) string {
		b := []byte(u)
		for i := range b {
			if rng.Intn(2) == 0 {
				b[i] = byte(strings.ToLower(string(b[i]))[0])
			}
		}
		return string(b)
	}
	parse := func(s string) (v uint64, err error, panicked bool) {
		fmt.Printf("CASE bandwidth %q\n", s)
		defer func() {
			if e := recover(); e != nil {
				panicked = true
				shape := "other"
				t := strings.TrimSpace(s)
				if t == "" {
					shape = "blank"
				} else if strings.IndexFunc(t, func(r rune) bool { return (r >= 'a' && r <= 'z') || (r >= 'A' && r <= 'Z') }) < 0 {
					shape = "no-unit"
				}
				r.Violate("C15.panic", "parseBandwidth/"+shape, fmt.Sprintf("panic: %v on bandwidth %q", e, s), map[string]any{"entry": "parseBandwidth", "input": s})
			}
		}()
		v, err = k8s.VerifParseBandwidth(s)
		return
	}
	for i := 0; i < n; i++ {
		r.Eval(1)
		if i%3 == 0 {
			// arbitrary bytes: only "no panic"
			s := fuzzString(rng)
			_, err, _ := parse(s)
			r.DistinctKey(fmt.Sprintf("bw/fuzz/%v/len%d", err == nil, bucket(len(s))))
			continue
		}
		// well-formed: <decimal><unit>, optional surrounding blanks
		ip := rng.Intn(5000)
		frac := ""
		if rng.Intn(2) == 0 {
			frac = fmt.Sprintf(".%0*d", 1+rng.Intn(3), rng.Intn(10))
		}
		if ip == 0 && (frac == "" || strings.Trim(frac, ".0") == "") {
			ip = 1
		}
		num := fmt.Sprintf("%d%s", ip, frac)
		want := func(shift int) *big.Int {
			rat, _ := new(big.Rat).SetString(num)
			rat.Mul(rat, new(big.Rat).SetInt(new(big.Int).Lsh(big.NewInt(1), uint(shift))))
			q := new(big.Int).Quo(rat.Num(), rat.Denom())
			return q
		}
		var prev uint64
		for _, fam := range [][]string{{"", "B"}, {"K", "KB", "KIB"}, {"M", "MB", "MIB"}, {"G", "GB", "GIB"}, {"T", "TB", "TIB"}} {
			u := fam[rng.Intn(len(fam))]
			text := num + spell(u)
			if rng.Intn(4) == 0 {
				text = " " + text + "\t"
			}
			got, err, panicked := parse(text)
			if panicked {
				break
			}
			shift := units[u]
			site := "unit=" + u
			if u == "" {
				site = "unit=<none>"
			}
			if err != nil {
				r.Violate("C15.bandwidth-rejected", site, fmt.Sprintf("well-formed bandwidth %q rejected: %v", text, err), map[string]any{"input": text})
				break
			}
			w := want(shift)
			// terway computes in float64: allow the rounding of (decimal -> double) scaled by the unit
			tol := new(big.Int).Rsh(w, 50)
			tol.Add(tol, big.NewInt(1))
			diff := new(big.Int).Sub(w, new(big.Int).SetUint64(got))
			if diff.Abs(diff).Cmp(tol) > 0 {
				r.Violate("C15.bandwidth-value", site, fmt.Sprintf("parse(%q)=%d want %s", text, got, w.String()), map[string]any{"input": text})
			}
			if got < prev {
				r.Violate("C15.bandwidth-not-monotonic", site, fmt.Sprintf("parse(%q)=%d is smaller than the same number with the next smaller unit (%d)", text, got, prev), map[string]any{"input": text})
			}
			prev = got
			r.DistinctKey("bw/wellformed/" + u)
		}
		if i < 3 {
			r.Sample(map[string]any{"entry": "parseBandwidth", "number": num})
		}
	}
}

// ---------- pods through the daemon's k8s layer ----------
func c15Pods(c *ctxT, rng *rand.Rand, n int) {
	r := c.R
	node := &corev1.Node{ObjectMeta: metav1.ObjectMeta{Name: "node-1"}}
	for i := 0; i < n; i += 20 {
		var objs []client.Object
		var pods []*corev1.Pod
		for j := 0; j < 20; j++ {
			p := genFuzzPod(rng, i+j)
			pods = append(pods, p)
			objs = append(objs, p)
		}
		objs = append(objs, node.DeepCopy())
		cl := apisim.New(nil, objs...)
		kk := k8s.NewVerifK8S(cl, []string{tdaemon.ModeENIMultiIP, tdaemon.ModeENIOnly}[rng.Intn(2)], node, storage.NewMemoryStorage(), &types.IPNetSet{}, rng.Intn(2) == 0)
		for _, p := range pods {
			r.Eval(1)
			b, _ := json.Marshal(p.Annotations)
			fmt.Printf("CASE convertPod annotations=%s\n", shorten(string(b), 500))
			guard(c, "k8s.convertPod", p.Annotations, func() {
				pi := k8s.VerifConvertPod(tdaemon.ModeENIMultiIP, true, sets.New("statefulset"), p)
				r.DistinctKey(fmt.Sprintf("pod/convert/in%v/eg%v/eni%v/prio%v", pi.TcIngress > 0, pi.TcEgress > 0, pi.PodENI, pi.NetworkPriority != ""))
			})
			guard(c, "k8s.GetPod", p.Annotations, func() {
				_, _ = kk.GetPod(context.Background(), p.Namespace, p.Name, rng.Intn(2) == 0)
			})
		}
		guard(c, "k8s.GetLocalPods", "batch", func() { _, _ = kk.GetLocalPods() })
	}
}

// ---------- annotation parsers ----------
func c15Annotations(c *ctxT, rng *rand.Rand, n int) {
	r := c.R
	cache := status.NewCache[status.NodeStatus]()
	for i := 0; i < n; i++ {
		r.Eval(1)
		anno := genAnnotations(rng)
		b, _ := json.Marshal(anno)
		fmt.Printf("CASE annotations %s\n", shorten(string(b), 600))
		pod := &corev1.Pod{ObjectMeta: metav1.ObjectMeta{Name: "p", Namespace: "default", Annotations: anno}, Spec: corev1.PodSpec{NodeName: "node-1"}}
		guard(c, "controlplane.ParsePodNetworksFromAnnotation", anno[types.PodNetworks], func() {
			_, err := controlplane.ParsePodNetworksFromAnnotation(pod)
			r.DistinctKey(fmt.Sprintf("anno/networks/%v", err == nil))
		})
		guard(c, "controlplane.ParsePodNetworksFromRequest", anno[types.PodNetworksRequest], func() {
			_, err := controlplane.ParsePodNetworksFromRequest(anno)
			r.DistinctKey(fmt.Sprintf("anno/request/%v", err == nil))
		})
		guard(c, "podeni.podNumaHints", anno["cpuSet"], func() {
			h := podeni.VerifPodNumaHints(anno)
			r.DistinctKey(fmt.Sprintf("anno/numa/%d", bucket(len(h))))
		})
		if i%10 == 0 {
			// the controller path that consumes the hint: node with 1..4 network cards
			cards := 1 + rng.Intn(4)
			cache.Delete("node-1")
			cache.LoadOrStore("node-1", status.NewNodeStatus(cards))
			cl := apisim.New(nil, pod.DeepCopy(), &corev1.Node{ObjectMeta: metav1.ObjectMeta{Name: "node-1"}})
			m := podeni.NewVerifReconcilePodENI(cl, apisim.Scheme(), nil, nil, true, false, cache)
			guard(c, "podeni.getENIIndex", map[string]any{"cpuSet": anno["cpuSet"], "cards": cards}, func() {
				idx := m.VerifGetENIIndex(context.Background(), "default", "p", fmt.Sprintf("eni-%d", i))
				r.DistinctKey(fmt.Sprintf("anno/eniindex/cards%d/%v", cards, idx != nil))
				if idx != nil && (*idx < 0 || *idx >= cards) {
					r.Violate("C15.bad-index", "getENIIndex", fmt.Sprintf("network card index %d out of range for %d cards", *idx, cards), map[string]any{"cpuSet": anno["cpuSet"], "cards": cards})
				}
			})
		}
	}
}

// ---------- webhook ----------
func c15Webhook(c *ctxT, rng *rand.Rand, n int) {
	r := c.R
	tr, fa := true, false
	cm := &corev1.ConfigMap{ObjectMeta: metav1.ObjectMeta{Name: "eni-config", Namespace: "kube-system"}, Data: map[string]string{"eni_conf": `{"vswitches":{"zone-a":["vsw-1"]},"security_group":"sg-1"}`}}
	pn := &v1beta1.PodNetworking{ObjectMeta: metav1.ObjectMeta{Name: "pn-1"}, Spec: v1beta1.PodNetworkingSpec{VSwitchOptions: []string{"vsw-1"}, SecurityGroupIDs: []string{"sg-1"}, Selector: v1beta1.Selector{PodSelector: &metav1.LabelSelector{MatchLabels: map[string]string{"app": "x"}}}},
		Status: v1beta1.PodNetworkingStatus{Status: v1beta1.NetworkingStatusReady, VSwitches: []v1beta1.VSwitch{{ID: "vsw-1", Zone: "zone-a"}}}}
	for i := 0; i < n; i++ {
		r.Eval(1)
		cfg := &controlplane.Config{EnableTrunk: &tr, EnableWebhookInjectResource: &tr, IPAMType: string([]types.IPAMType{types.IPAMTypeDefault, types.IPAMTypeCRD}[rng.Intn(2)])}
		if rng.Intn(3) == 0 {
			cfg.EnableTrunk = &fa
		}
		cmi := cm.DeepCopy()
		if rng.Intn(4) == 0 {
			cmi.Data["eni_conf"] = mutateJSON(rng, cmi.Data["eni_conf"])
		}
		objs := []client.Object{cmi}
		if rng.Intn(2) == 0 {
			objs = append(objs, pn.DeepCopy())
		}
		cl := apisim.New(nil, objs...)
		var raw []byte
		kind := "Pod"
		switch rng.Intn(6) {
		case 0:
			raw = []byte(fuzzString(rng))
		case 1:
			kind = "PodNetworking"
			pp := pn.DeepCopy()
			if rng.Intn(2) == 0 {
				pp.Spec.VSwitchOptions = nil
			}
			raw, _ = json.Marshal(pp)
			raw = []byte(mutateJSON(rng, string(raw)))
		default:
			p := genFuzzPod(rng, i)
			raw, _ = json.Marshal(p)
			if rng.Intn(4) == 0 {
				raw = []byte(mutateJSON(rng, string(raw)))
			}
		}
		req := admission.Request{AdmissionRequest: admissionv1.AdmissionRequest{UID: "u", Kind: metav1.GroupVersionKind{Kind: kind}, Namespace: "default", Name: "p", Object: runtime.RawExtension{Raw: raw}}}
		fmt.Printf("CASE webhook kind=%s raw=%s\n", kind, shorten(fmt.Sprintf("%q", raw), 800))
		guard(c, "webhook.MutatingHook", string(raw), func() {
			resp := webhook.MutatingHook(cl, cfg).Handle(context.Background(), req)
			r.DistinctKey(fmt.Sprintf("webhook/mut/%s/%v/%d", kind, resp.Allowed, bucket(len(resp.Patches))))
		})
		guard(c, "webhook.ValidateHook", string(raw), func() {
			resp := webhook.ValidateHook().Handle(context.Background(), req)
			r.DistinctKey(fmt.Sprintf("webhook/val/%s/%v", kind, resp.Allowed))
		})
	}
}

// ---------- ConfigMap content ----------
func c15Config(c *ctxT, rng *rand.Rand, n int) {
	r := c.R
	valid := `{"version":"1","max_pool_size":5,"min_pool_size":0,"vswitches":{"zone-a":["vsw-1","vsw-2"]},"eni_tags":{"a":"b"},"service_cidr":"172.16.0.0/16","security_group":"sg-1","security_groups":["sg-2"],"ip_stack":"dual","eni_cap_ratio":1,"enable_eni_trunking":true,"backoff_override":{"x":{"Steps":3}},"extra_routes":[{"dst":"10.0.0.0/8"}],"rate_limit":{"a":1},"ipam_type":"crd"}`
	for i := 0; i < n; i++ {
		r.Eval(1)
		base := mutateJSON(rng, valid)
		over := ""
		if rng.Intn(2) == 0 {
			over = mutateJSON(rng, `{"max_pool_size":10,"vswitches":{"zone-b":null},"eni_tags":null}`)
		}
		// whole-document corner values (a chart that renders an unset value: null, an empty string, a scalar)
		docs := []string{"null", " null\n", "{}", "[]", "0", "\"\"", "true", ""}
		switch rng.Intn(12) {
		case 0:
			base = docs[rng.Intn(len(docs))]
		case 1:
			over = docs[rng.Intn(len(docs))]
		}
		fmt.Printf("CASE config base=%s overlay=%s\n", shorten(fmt.Sprintf("%q", base), 600), shorten(fmt.Sprintf("%q", over), 300))
		var cfg *tdaemon.Config
		merged := false
		guard(c, "daemon.MergeConfigAndUnmarshal", map[string]string{"base": base, "overlay": over}, func() {
			var err error
			cfg, err = tdaemon.MergeConfigAndUnmarshal([]byte(over), []byte(base))
			r.DistinctKey(fmt.Sprintf("config/merge/%v", err == nil))
			merged = err == nil
		})
		if merged {
			// every caller uses the configuration as soon as no error came back
			guard(c, "daemon.Config.Populate+Validate", base, func() {
				cfg.Populate()
				_ = cfg.Validate()
				_ = cfg.GetSecurityGroups()
				_ = cfg.GetVSwitchIDs()
			})
			guard(c, "daemon.getPoolConfig", base, func() {
				lim := &aliyunClient.Limits{Adapters: rng.Intn(10), TotalAdapters: rng.Intn(20), IPv4PerAdapter: rng.Intn(20), IPv6PerAdapter: rng.Intn(20), MemberAdapterLimit: rng.Intn(10), ERdmaAdapters: rng.Intn(3)}
				_, _ = daemon.VerifGetPoolConfig(cfg, tdaemon.ModeENIMultiIP, lim)
				_ = daemon.VerifGetENIConfig(cfg, "zone-a")
				_, _ = daemon.VerifCheckInstance(lim, tdaemon.ModeENIMultiIP, cfg)
			})
		}
		if i%5 == 0 {
			cms := []client.Object{&corev1.ConfigMap{ObjectMeta: metav1.ObjectMeta{Name: "eni-config", Namespace: "kube-system"}, Data: map[string]string{"eni_conf": base}},
				&corev1.ConfigMap{ObjectMeta: metav1.ObjectMeta{Name: "dyn", Namespace: "kube-system"}, Data: map[string]string{"eni_conf": over}},
				&corev1.Node{ObjectMeta: metav1.ObjectMeta{Name: "node-1", Labels: map[string]string{"terway-config": "dyn"}}}}
			cl := apisim.New(nil, cms...)
			guard(c, "daemon.ConfigFromConfigMap", map[string]string{"base": base, "overlay": over}, func() {
				_, err := tdaemon.ConfigFromConfigMap(context.Background(), cl, []string{"", "node-1"}[rng.Intn(2)])
				r.DistinctKey(fmt.Sprintf("config/cm/%v", err == nil))
			})
		}
	}
}

// ---------- stored records ----------
// loadFactory: the minimal cloud view Local.load needs.
type loadFactory struct{}

func newLoadFactory() *loadFactory { return &loadFactory{} }
func (*loadFactory) CreateNetworkInterface(int, int, string) (*tdaemon.ENI, []netip.Addr, []netip.Addr, error) {
	return nil, nil, nil, fmt.Errorf("not used")
}
func (*loadFactory) AssignNIPv4(string, int, string) ([]netip.Addr, error) {
	return nil, fmt.Errorf("not used")
}
func (*loadFactory) AssignNIPv6(string, int, string) ([]netip.Addr, error) {
	return nil, fmt.Errorf("not used")
}
func (*loadFactory) UnAssignNIPv4(string, []netip.Addr, string) error { return nil }
func (*loadFactory) UnAssignNIPv6(string, []netip.Addr, string) error { return nil }
func (*loadFactory) DeleteNetworkInterface(string) error              { return nil }
func (*loadFactory) LoadNetworkInterface(string) ([]netip.Addr, []netip.Addr, error) {
	return []netip.Addr{netip.MustParseAddr("10.0.0.4"), netip.MustParseAddr("10.0.0.5"), netip.MustParseAddr("10.0.0.6")}, []netip.Addr{netip.MustParseAddr("fd00::5")}, nil
}
func (*loadFactory) GetAttachedNetworkInterface(string) ([]*tdaemon.ENI, error) { return nil, nil }

func genRecord(rng *rand.Rand, i int) tdaemon.PodResources {
	ips := []string{"", "10.0.0.5", "10.0.0.6", "fd00::5", "bad", "10.0.0.5/24", "999.9.9.9", "::ffff:10.0.0.5", fuzzString(rng)}
	macs := []string{"", "00:16:3e:00:00:01", "00:16:3e:00:00:02", "zz", fuzzString(rng)}
	var res []tdaemon.ResourceItem
	for j, n := 0, rng.Intn(4); j < n; j++ {
		it := tdaemon.ResourceItem{Type: []string{tdaemon.ResourceTypeENIIP, tdaemon.ResourceTypeENI, "eip", "", fuzzString(rng)}[rng.Intn(5)]}
		switch rng.Intn(4) {
		case 0: // legacy id format mac.ip
			it.ID = macs[rng.Intn(len(macs))] + "." + ips[rng.Intn(len(ips))]
		case 1:
			it.ID = fuzzString(rng)
		default:
			it.ENIID = []string{"eni-1", "eni-2", "eni-x", ""}[rng.Intn(4)]
			it.ENIMAC = macs[rng.Intn(len(macs))]
			it.IPv4 = ips[rng.Intn(len(ips))]
			it.IPv6 = ips[rng.Intn(len(ips))]
			it.ID = it.ENIMAC + "." + it.IPv4
		}
		res = append(res, it)
	}
	pr := tdaemon.PodResources{Resources: res}
	if rng.Intn(12) != 0 {
		pr.PodInfo = &tdaemon.PodInfo{Name: fmt.Sprintf("p%d", i), Namespace: "default", PodUID: fmt.Sprintf("uid-%d", i), PodNetworkType: tdaemon.PodNetworkTypeENIMultiIP}
		if rng.Intn(4) == 0 {
			pr.PodInfo.IPStickTime = time.Minute
		}
	}
	if rng.Intn(2) == 0 {
		s := fmt.Sprintf("c%d", rng.Intn(3))
		pr.ContainerID = &s
	}
	switch rng.Intn(4) {
	case 0:
		pr.NetConf = fuzzString(rng)
	case 1:
		pr.NetConf = mutateJSON(rng, `[{"BasicInfo":{"PodIP":{"IPv4":"10.0.0.5"},"PodCIDR":{"IPv4":"10.0.0.0/24"},"GatewayIP":{"IPv4":"10.0.0.253"}},"ENIInfo":{"MAC":"00:16:3e:00:00:01"},"IfName":"eth0","DefaultRoute":true}]`)
	}
	return pr
}

func c15Records(c *ctxT, rng *rand.Rand, n int) {
	r := c.R
	eni.VerifSetRateLimit(1e9)
	for i := 0; i < n; i++ {
		r.Eval(1)
		var recs []tdaemon.PodResources
		for j, m := 0, 1+rng.Intn(5); j < m; j++ {
			recs = append(recs, genRecord(rng, i*10+j))
		}
		b, _ := json.Marshal(recs)
		fmt.Printf("CASE records %s\n", shorten(string(b), 1500))
		attached := map[string]*tdaemon.ENI{"eni-1": {ID: "eni-1", MAC: "00:16:3e:00:00:01"}}
		if rng.Intn(2) == 0 {
			attached["eni-2"] = &tdaemon.ENI{ID: "eni-2", MAC: "00:16:3e:00:00:02"}
		}
		withInfo := recs[:0:0]
		for _, x := range recs {
			if x.PodInfo != nil {
				withInfo = append(withInfo, x)
			}
		}
		cp := func(in []tdaemon.PodResources) []tdaemon.PodResources {
			var out []tdaemon.PodResources
			bb, _ := json.Marshal(in)
			_ = json.Unmarshal(bb, &out)
			return out
		}
		guard(c, "daemon.filterENINotFound", recs, func() {
			out := daemon.VerifFilterENINotFound(cp(recs), attached)
			r.DistinctKey(fmt.Sprintf("records/filter/%d", bucket(len(out))))
		})
		for _, pr := range recs {
			for _, it := range pr.Resources {
				guard(c, "daemon.parseNetworkResource", it, func() {
					if nr := daemon.VerifParseNetworkResource(it); nr != nil {
						_ = nr.ToRPC()
						_ = nr.ToStore()
					}
				})
			}
		}
		// restart-time load of the pool from these records (records without PodInfo cannot be written by the daemon)
		sim := newLoadFactory()
		lo := eni.NewLocal(&tdaemon.ENI{ID: "eni-1", MAC: "00:16:3e:00:00:01", PrimaryIP: types.IPSet{IPv4: []byte{10, 0, 0, 4}}}, "secondary", sim, &tdaemon.PoolConfig{EnableIPv4: true, EnableIPv6: true, MaxIPPerENI: 5, BatchSize: 5})
		guard(c, "eni.Local.load", withInfo, func() {
			err := lo.VerifLoad(cp(withInfo))
			r.DistinctKey(fmt.Sprintf("records/load/%v", err == nil))
		})
		// GetIPInfo / ReleaseIP over a store holding these records
		if i%3 == 0 {
			db := storage.NewMemoryStorage()
			var objs []client.Object
			node := &corev1.Node{ObjectMeta: metav1.ObjectMeta{Name: "node-1"}}
			objs = append(objs, node)
			for _, pr := range withInfo {
				_ = db.Put(pr.PodInfo.Namespace+"/"+pr.PodInfo.Name, pr)
				objs = append(objs, &corev1.Pod{ObjectMeta: metav1.ObjectMeta{Name: pr.PodInfo.Name, Namespace: pr.PodInfo.Namespace, UID: k8stypes.UID(pr.PodInfo.PodUID)}, Spec: corev1.PodSpec{NodeName: "node-1"}})
			}
			cl := apisim.New(nil, objs...)
			kk := k8s.NewVerifK8S(cl, tdaemon.ModeENIMultiIP, node, storage.NewMemoryStorage(), &types.IPNetSet{}, false)
			mgr := eni.NewManager(0, 0, 0, 0, []eni.NetworkInterface{lo}, tdaemon.EniSelectionPolicyMostIPs, nil)
			svc := daemon.NewVerifService(kk, db, mgr, tdaemon.ModeENIMultiIP, types.IPAMTypeDefault, true, true, false)
			for _, pr := range withInfo {
				cid := "c0"
				if pr.ContainerID != nil {
					cid = *pr.ContainerID
				}
				guard(c, "daemon.GetIPInfo", pr, func() {
					_, err := svc.GetIPInfo(context.Background(), &rpc.GetInfoRequest{K8SPodName: pr.PodInfo.Name, K8SPodNamespace: pr.PodInfo.Namespace, K8SPodInfraContainerId: cid})
					r.DistinctKey(fmt.Sprintf("records/getinfo/%v", err == nil))
				})
				guard(c, "daemon.ReleaseIP", pr, func() {
					_, err := svc.ReleaseIP(context.Background(), &rpc.ReleaseIPRequest{K8SPodName: pr.PodInfo.Name, K8SPodNamespace: pr.PodInfo.Namespace, K8SPodInfraContainerId: cid})
					r.DistinctKey(fmt.Sprintf("records/release/%v", err == nil))
				})
			}
		}
	}
}

// ---------- helpers ----------
func c15Helpers(c *ctxT, rng *rand.Rand, n int) {
	r := c.R
	vals := []string{"", "10.0.0.5", "10.0.0.0/24", "fd00::5", "fd00::/64", "bad", "10.0.0.5/33", "::ffff:1.2.3.4", "1.2.3.4/0"}
	pick := func() string {
		if rng.Intn(3) == 0 {
			return fuzzString(rng)
		}
		return vals[rng.Intn(len(vals))]
	}
	for i := 0; i < n; i++ {
		r.Eval(1)
		var a, b *rpc.IPSet
		if rng.Intn(8) != 0 {
			a = &rpc.IPSet{IPv4: pick(), IPv6: pick()}
		}
		if rng.Intn(8) != 0 {
			b = &rpc.IPSet{IPv4: pick(), IPv6: pick()}
		}
		fmt.Printf("CASE helpers a=%+v b=%+v\n", a, b)
		guard(c, "types.BuildIPNet", []any{a, b}, func() {
			_, err := types.BuildIPNet(a, b)
			r.DistinctKey(fmt.Sprintf("helpers/build/%v", err == nil))
		})
		guard(c, "types.ToIPSet", a, func() { _, _ = types.ToIPSet(a) })
		guard(c, "types.ToIPNetSet", b, func() { _, _ = types.ToIPNetSet(b) })
		guard(c, "daemon.defaultForNetConf", a, func() {
			var ncs []*rpc.NetConf
			for j, m := 0, rng.Intn(4); j < m; j++ {
				if rng.Intn(10) == 0 {
					ncs = append(ncs, &rpc.NetConf{})
					continue
				}
				ncs = append(ncs, &rpc.NetConf{IfName: []string{"", "eth0", "eth1", fuzzString(rng)}[rng.Intn(4)], DefaultRoute: rng.Intn(2) == 0})
			}
			_ = daemon.VerifDefaultForNetConf(ncs)
		})
	}
}

// ---------- stored PodENI records ----------
// c15StoredPodENI: a per-pod ENI record is a CR anybody with access can edit (kubectl annotate/edit, a backup restored
// without annotations, a hand-made CR). The real pod and PodENI controllers and their collectors are driven over
// records damaged in one place, at each phase a record rests in; a panic inside a reconcile is the violation.
func c15StoredPodENI(c *ctxT, rng *rand.Rand, n int) {
	damages := []string{"no-annotations", "garbage-uid", "no-allocations", "empty-eni-id", "no-eni-infos", "garbage-phase", "no-zone", "garbage-ip", "nil-eni-info-entry", "no-finalizer"}
	for i := 0; i < n; i++ {
		hid := 990000 + c.Batch*1000 + i
		h := newPeHist(c, "C15", hid, peCfg{Trunk: rng.Intn(2) == 0, Names: 1}, int64(hid)+c.R.Seed)
		sp := h.mon.spec["p0"]
		sp.Fixed, sp.Owner, sp.NIfs = []string{"never", "ttl-long", "ttl-zero", ""}[rng.Intn(4)], "StatefulSet", 1+rng.Intn(2)
		dmg := damages[rng.Intn(len(damages))]
		rest := []string{"bound", "unbound", "initial"}[rng.Intn(3)]
		h.createPod("p0")
		h.deliverPod("p0")
		if rest != "initial" {
			h.deliverENI("p0")
			h.deliverPod("p0")
		}
		if rest == "unbound" {
			h.mon.mu.Lock()
			p := h.mon.cur["p0"]
			h.mon.mu.Unlock()
			h.remove(p)
			for k := 0; k < 2; k++ {
				h.deliverPod("p0")
				h.deliverENI("p0")
			}
		}
		rec := &v1beta1.PodENI{}
		if err := h.cl.Get(context.Background(), client.ObjectKey{Namespace: "ns", Name: "p0"}, rec); err == nil {
			status := false
			switch dmg {
			case "no-annotations":
				rec.Annotations = nil
			case "garbage-uid":
				rec.Annotations = map[string]string{types.PodUID: fuzzString(rng)}
			case "no-allocations":
				rec.Spec.Allocations = nil
			case "empty-eni-id":
				if len(rec.Spec.Allocations) > 0 {
					rec.Spec.Allocations[0].ENI.ID = ""
				}
			case "no-zone":
				rec.Spec.Zone = ""
			case "garbage-ip":
				if len(rec.Spec.Allocations) > 0 {
					rec.Spec.Allocations[0].IPv4, rec.Spec.Allocations[0].IPv4CIDR = fuzzString(rng), fuzzString(rng)
				}
			case "no-finalizer":
				rec.Finalizers = nil
			case "no-eni-infos":
				rec.Status.ENIInfos, status = nil, true
			case "garbage-phase":
				rec.Status.Phase, status = v1beta1.Phase(fuzzString(rng)), true
			case "nil-eni-info-entry":
				rec.Status.ENIInfos, status = map[string]v1beta1.ENIInfo{"": {}}, true
			}
			if status {
				_ = h.cl.Status().Update(context.Background(), rec)
			} else {
				_ = h.cl.Update(context.Background(), rec)
			}
		}
		if rest == "unbound" || rng.Intn(3) == 0 {
			h.mon.mu.Lock()
			p := h.mon.cur["p0"]
			h.mon.mu.Unlock()
			if p != nil && p.Exists {
				h.remove(p)
			}
			h.createPod("p0") // the pod comes back under a new UID and meets the damaged record
		}
		for k := 0; k < 3; k++ {
			h.deliverPod("p0")
			h.deliverENI("p0")
		}
		h.gcRecords()
		h.age()
		h.gcInterfaces()
		h.deliverENI("p0")
		c.R.Eval(1)
		c.R.Count("stored_podeni_cases", 1)
		c.R.DistinctKey(fmt.Sprintf("podeni-record/%s/%s/fixed=%s", dmg, rest, sp.Fixed))
	}
}
