package main

// C18 — the admission webhook only touches pods it owns and always emits a complete spec.
// Real webhook.MutatingHook(...).Handle over the simulated API server; the response patch is
// applied to the submitted bytes and the resulting pod is judged.

import (
	"context"
	"encoding/json"
	"fmt"
	"k8s.io/apimachinery/pkg/api/resource"
	"math/rand"
	"sort"
	"strconv"
	"strings"

	jsonpatch "github.com/evanphx/json-patch"
	admissionv1 "k8s.io/api/admission/v1"
	corev1 "k8s.io/api/core/v1"
	metav1 "k8s.io/apimachinery/pkg/apis/meta/v1"
	"k8s.io/apimachinery/pkg/runtime"
	"sigs.k8s.io/controller-runtime/pkg/client"
	"sigs.k8s.io/controller-runtime/pkg/webhook/admission"

	"github.com/AliyunContainerService/terway/pkg/apis/network.alibabacloud.com/v1beta1"
	"github.com/AliyunContainerService/terway/pkg/controller/webhook"
	"github.com/AliyunContainerService/terway/types"
	"github.com/AliyunContainerService/terway/types/controlplane"

	"verifharness/apisim"
)

func init() {
	register("C18", &checkDef{level: "exploration", fn: runC18,
		batches:  func(th bool) int { return map[bool]int{false: 4, true: 16}[th] },
		parallel: func(bool) int { return 4 },
	})
}

type c18Case struct {
	Scenario  string
	Trunk     bool
	CRD       bool
	Inject    bool
	Owner     string // "" | StatefulSet | ReplicaSet | DaemonSet
	UnionSG   int    // number of distinct default security groups in eni-config
	Pod       *corev1.Pod
	PNs       []*v1beta1.PodNetworking
	NSLabels  map[string]string
	PrevZone  string
	Expect    string   // unchanged | denied | marked | any
	Zones     []string // zones in which every requested network has a vSwitch (nil = no constraint known)
	WantCount int      // number of networks expected (0 = unknown)
}

var c18Zones = []string{"zone-a", "zone-b", "zone-c"}

func c18PN(rng *rand.Rand, name string, selector int, ready bool, fixed bool, zones []string) *v1beta1.PodNetworking {
	pn := &v1beta1.PodNetworking{ObjectMeta: metav1.ObjectMeta{Name: name}}
	pn.Spec.VSwitchOptions = []string{"vsw-" + name + "-1", "vsw-" + name + "-2"}
	pn.Spec.SecurityGroupIDs = []string{"sg-" + name}
	pn.Spec.AllocationType = v1beta1.AllocationType{Type: v1beta1.IPAllocTypeElastic}
	if fixed {
		pn.Spec.AllocationType = v1beta1.AllocationType{Type: v1beta1.IPAllocTypeFixed, ReleaseStrategy: v1beta1.ReleaseStrategyTTL, ReleaseAfter: "10m"}
	}
	switch selector {
	case 1:
		pn.Spec.Selector.PodSelector = &metav1.LabelSelector{MatchLabels: map[string]string{"net": name}}
	case 2:
		pn.Spec.Selector.NamespaceSelector = &metav1.LabelSelector{MatchLabels: map[string]string{"nsnet": name}}
	}
	if rng.Intn(4) == 0 {
		pn.Spec.ENIOptions.ENIAttachType = v1beta1.ENIOptionTypeENI
	}
	pn.Status.Status = v1beta1.NetworkingStatusReady
	if !ready {
		pn.Status.Status = v1beta1.NetworkingStatusFail
	}
	for i, z := range zones {
		pn.Status.VSwitches = append(pn.Status.VSwitches, v1beta1.VSwitch{ID: fmt.Sprintf("vsw-%s-%d", name, i+1), Zone: z})
	}
	return pn
}

func subsetZones(rng *rand.Rand) []string {
	var out []string
	for _, z := range c18Zones {
		if rng.Intn(2) == 0 {
			out = append(out, z)
		}
	}
	if len(out) == 0 {
		out = []string{c18Zones[rng.Intn(3)]}
	}
	return out
}

func genC18(rng *rand.Rand, i int) *c18Case {
	cs := &c18Case{Trunk: rng.Intn(3) != 0, CRD: rng.Intn(3) == 0, Inject: rng.Intn(4) != 0, NSLabels: map[string]string{}}
	cs.Owner = []string{"", "StatefulSet", "ReplicaSet", "ReplicaSet", "DaemonSet"}[rng.Intn(5)]
	pod := &corev1.Pod{TypeMeta: metav1.TypeMeta{Kind: "Pod", APIVersion: "v1"}, ObjectMeta: metav1.ObjectMeta{Name: fmt.Sprintf("pod-%d", i), Namespace: "default", Labels: map[string]string{"app": "x"}, Annotations: map[string]string{}}}
	if cs.Owner != "" {
		pod.OwnerReferences = []metav1.OwnerReference{{APIVersion: "apps/v1", Kind: cs.Owner, Name: "owner", UID: "o"}}
	}
	for c := 0; c < 1+rng.Intn(3); c++ {
		pod.Spec.Containers = append(pod.Spec.Containers, corev1.Container{Name: fmt.Sprintf("c%d", c), Image: "img"})
	}
	if rng.Intn(5) == 0 {
		// a template that already declares a device (hand-written, or admitted once under another definition)
		q := resource.MustParse(strconv.Itoa(1 + rng.Intn(3)))
		name := corev1.ResourceName([]string{"aliyun/member-eni", "aliyun/eni"}[rng.Intn(2)])
		pod.Spec.Containers[0].Resources.Limits = corev1.ResourceList{name: q}
		pod.Spec.Containers[0].Resources.Requests = corev1.ResourceList{name: q}
	}
	cs.Pod = pod
	fixedName := cs.Owner == "" || cs.Owner == "StatefulSet"
	scen := []string{"host-network", "ignored", "unmatched", "pn-pod-selector", "pn-ns-selector", "explicit", "request", "conflict", "fixed-unstable", "pod-eni-flag"}[rng.Intn(10)]
	cs.Scenario = scen
	// background PodNetworkings that never select this pod
	for k := 0; k < rng.Intn(3); k++ {
		// (selector-less definitions exist to be named by a pod-networks-request only: they select nobody)
		cs.PNs = append(cs.PNs, c18PN(rng, fmt.Sprintf("bg%d", k), rng.Intn(3), rng.Intn(2) == 0, rng.Intn(3) == 0, subsetZones(rng)))
	}
	switch scen {
	case "host-network":
		pod.Spec.HostNetwork = true
		if rng.Intn(2) == 0 {
			pod.Annotations[types.PodENI] = "true"
		}
		cs.Expect = "unchanged"
	case "ignored":
		pod.Labels[types.IgnoreByTerway] = "true"
		pod.Annotations[types.PodENI] = "true"
		cs.Expect = "unchanged"
	case "unmatched":
		if cs.CRD {
			cs.Expect, cs.WantCount = "marked", 1
		} else {
			cs.Expect = "unchanged"
		}
		// a matching but unusable networking: not ready, or fixed for a pod without a stable name
		if rng.Intn(2) == 0 {
			pod.Labels["net"] = "nr"
			cs.PNs = append(cs.PNs, c18PN(rng, "nr", 1, false, false, subsetZones(rng)))
		}
		if !fixedName && rng.Intn(2) == 0 {
			pod.Labels["net"] = "fx"
			cs.PNs = append(cs.PNs, c18PN(rng, "fx", 1, true, true, subsetZones(rng)))
		}
	case "pn-pod-selector", "pn-ns-selector":
		z := subsetZones(rng)
		fixed := fixedName && rng.Intn(3) == 0
		if scen == "pn-pod-selector" {
			pod.Labels["net"] = "m"
			cs.PNs = append(cs.PNs, c18PN(rng, "m", 1, true, fixed, z))
		} else {
			cs.NSLabels["nsnet"] = "m"
			cs.PNs = append(cs.PNs, c18PN(rng, "m", 2, true, fixed, z))
		}
		cs.Expect, cs.Zones, cs.WantCount = "marked", z, 1
		if fixed && cs.Owner == "StatefulSet" && rng.Intn(2) == 0 {
			cs.PrevZone = z[rng.Intn(len(z))]
		}
	case "explicit":
		n := 1 + rng.Intn(3)
		var nets []map[string]any
		names := []string{"eth0", "eth1", "net1", "n2"}
		bad := ""
		for k := 0; k < n; k++ {
			e := map[string]any{"interface": names[k]}
			if rng.Intn(4) != 0 || k > 0 && rng.Intn(2) == 0 {
				e["vSwitchOptions"] = []string{"vsw-x"}
			}
			if rng.Intn(4) != 0 {
				e["securityGroupIDs"] = []string{"sg-x"}
			}
			switch rng.Intn(8) {
			case 0:
				e["allocationType"] = map[string]any{"type": "Fixed", "releaseStrategy": "TTL", "releaseAfter": "5m"}
				if !fixedName {
					bad = "fixed-unstable"
				}
			case 1:
				e["allocationType"] = map[string]any{"type": "Elastic"}
			}
			nets = append(nets, e)
		}
		switch rng.Intn(10) {
		case 0:
			nets[0]["interface"] = ""
			bad = "iface"
		case 1:
			nets[0]["interface"] = "toolong"
			bad = "iface"
		case 2:
			if n > 1 {
				nets[1]["interface"] = nets[0]["interface"]
				bad = "iface"
			}
		case 3:
			var sgs []string
			for s := 0; s < 11; s++ {
				sgs = append(sgs, fmt.Sprintf("sg-%d", s))
			}
			nets[0]["securityGroupIDs"] = sgs
			bad = "sg"
		}
		b, _ := json.Marshal(map[string]any{"podNetworks": nets})
		pod.Annotations[types.PodNetworks] = string(b)
		cs.WantCount = n
		if bad != "" {
			cs.Expect = "denied"
		} else {
			cs.Expect = "marked"
		}
	case "request":
		n := 1 + rng.Intn(3)
		var reqs []map[string]any
		var common []string
		names := []string{"eth0", "eth1", "net1"}
		for k := 0; k < n; k++ {
			z := subsetZones(rng)
			name := fmt.Sprintf("rq%d", k)
			cs.PNs = append(cs.PNs, c18PN(rng, name, 0, true, false, z))
			reqs = append(reqs, map[string]any{"interfaceName": names[k], "network": name, "defaultRoute": k == 0})
			if k == 0 {
				common = z
			} else {
				var nc []string
				for _, a := range common {
					for _, b := range z {
						if a == b {
							nc = append(nc, a)
						}
					}
				}
				common = nc
			}
		}
		b, _ := json.Marshal(reqs)
		pod.Annotations[types.PodNetworksRequest] = string(b)
		cs.Expect, cs.Zones, cs.WantCount = "marked", common, n
		if cs.Zones == nil {
			cs.Zones = []string{}
		}
	case "conflict":
		keys := []string{types.PodNetworks, types.PodNetworksRequest, types.PodNetworking}
		rng.Shuffle(3, func(a, b int) { keys[a], keys[b] = keys[b], keys[a] })
		vals := map[string]string{types.PodNetworks: `{"podNetworks":[{"interface":"eth0","vSwitchOptions":["v"],"securityGroupIDs":["s"]}]}`, types.PodNetworksRequest: `[{"interfaceName":"eth0","network":"bg0"}]`, types.PodNetworking: "bg0"}
		for _, k := range keys[:2+rng.Intn(2)] {
			pod.Annotations[k] = vals[k]
		}
		cs.Expect = "denied"
	case "fixed-unstable":
		cs.Owner = "ReplicaSet"
		pod.OwnerReferences = []metav1.OwnerReference{{APIVersion: "apps/v1", Kind: "ReplicaSet", Name: "owner", UID: "o"}}
		pod.Annotations[types.PodNetworks] = `{"podNetworks":[{"interface":"eth0","vSwitchOptions":["v"],"securityGroupIDs":["s"],"allocationType":{"type":"Fixed","releaseStrategy":"Never"}}]}`
		cs.Expect = "denied"
	case "pod-eni-flag":
		pod.Annotations[types.PodENI] = "true"
		cs.Expect, cs.WantCount = "marked", 1
	}
	return cs
}

func runC18(c *ctxT) {
	r := c.R
	rng := rand.New(rand.NewSource(r.Seed*173 + int64(c.Batch)))
	n := 5000
	if c.Thorough {
		n = 60000
	}
	r.Rule = "generated admissions: pods (labels, owners incl. StatefulSet/ReplicaSet/DaemonSet/none, 1..3 containers, host network, ignore label, pod-eni flag) x PodNetworking sets (pod/namespace selectors, ready or not, elastic/fixed, vSwitch zones) x namespaces x eni-config x cluster config (trunk on/off, IPAM default/crd, resource injection on/off) in ten scenarios whose expected verdict is known by construction; the response patch is applied to the submitted bytes and the resulting pod judged. distinct = distinct (scenario, trunk, crd, inject, owner, verdict, #networks) classes"
	r.Assumptions = []string{"API server simulated", "pods are generated without pre-existing node affinity"}
	tr, fa := true, false
	for i := 0; i < n; i++ {
		cs := genC18(rng, i)
		cfg := &controlplane.Config{EnableTrunk: &fa, EnableWebhookInjectResource: &fa}
		if cs.Trunk {
			cfg.EnableTrunk = &tr
		}
		if cs.Inject {
			cfg.EnableWebhookInjectResource = &tr
		}
		if cs.CRD {
			cfg.IPAMType = string(types.IPAMTypeCRD)
		}
		// the cluster defaults: the legacy single group, a list of up to ten, or both (their union may exceed ten:
		// such a configuration must not let a marked pod through with more than ten groups)
		sgConf := `"security_group":"sg-def"`
		cs.UnionSG = 1
		switch rng.Intn(6) {
		case 0:
			k := 1 + rng.Intn(10)
			var l []string
			for j := 0; j < k; j++ {
				l = append(l, fmt.Sprintf("\"sg-l%d\"", j))
			}
			sgConf = `"security_groups":[` + strings.Join(l, ",") + `]`
			cs.UnionSG = k
		case 1:
			k := 9 + rng.Intn(2)
			var l []string
			for j := 0; j < k; j++ {
				l = append(l, fmt.Sprintf("\"sg-l%d\"", j))
			}
			sgConf = `"security_group":"sg-def","security_groups":[` + strings.Join(l, ",") + `]`
			cs.UnionSG = k + 1
		}
		objs := []client.Object{
			&corev1.ConfigMap{ObjectMeta: metav1.ObjectMeta{Name: "eni-config", Namespace: "kube-system"}, Data: map[string]string{"eni_conf": `{"version":"1","vswitches":{"zone-a":["vsw-def-a"],"zone-b":["vsw-def-b"]},` + sgConf + `}`}},
			&corev1.Namespace{ObjectMeta: metav1.ObjectMeta{Name: "default", Labels: cs.NSLabels}},
		}
		for _, pn := range cs.PNs {
			objs = append(objs, pn.DeepCopy())
		}
		if cs.PrevZone != "" {
			objs = append(objs, &v1beta1.PodENI{ObjectMeta: metav1.ObjectMeta{Name: cs.Pod.Name, Namespace: "default"}, Spec: v1beta1.PodENISpec{Zone: cs.PrevZone, Allocations: []v1beta1.Allocation{{IPv4: "10.0.0.9"}}}})
		}
		cl := apisim.New(nil, objs...)
		// PodNetworking status is a subresource: write it
		for _, pn := range cs.PNs {
			cur := &v1beta1.PodNetworking{}
			if err := cl.Get(context.Background(), client.ObjectKey{Name: pn.Name}, cur); err == nil {
				cur.Status = pn.Status
				_ = cl.Status().Update(context.Background(), cur)
			}
		}
		raw, _ := json.Marshal(cs.Pod)
		req := admission.Request{AdmissionRequest: admissionv1.AdmissionRequest{UID: "u", Kind: metav1.GroupVersionKind{Kind: "Pod"}, Namespace: "default", Name: cs.Pod.Name, Object: runtime.RawExtension{Raw: raw}}}
		var resp admission.Response
		func() {
			defer func() {
				if e := recover(); e != nil {
					r.Violate("C18.panic", cs.Scenario, fmt.Sprint(e), map[string]any{"case": cs})
				}
			}()
			resp = webhook.MutatingHook(cl, cfg).Handle(context.Background(), req)
		}()
		r.Eval(1)
		c18Judge(c, cs, raw, resp)
		if i < 2 {
			r.Sample(map[string]any{"scenario": cs.Scenario, "pod_annotations": cs.Pod.Annotations, "allowed": resp.Allowed, "patches": len(resp.Patches)})
		}
	}
}

func c18Judge(c *ctxT, cs *c18Case, raw []byte, resp admission.Response) {
	r := c.R
	rep := map[string]any{"scenario": cs.Scenario, "trunk": cs.Trunk, "crd": cs.CRD, "inject": cs.Inject, "owner": cs.Owner, "pod": cs.Pod, "pns": cs.PNs, "prev_zone": cs.PrevZone, "ns_labels": cs.NSLabels}
	verdict := "denied"
	if resp.Allowed {
		verdict = "unchanged"
		if len(resp.Patches) > 0 {
			verdict = "patched"
		}
	}
	nets := 0
	defer func() {
		r.DistinctKey(fmt.Sprintf("%s/t%v/c%v/i%v/%s/%s/n%d", cs.Scenario, cs.Trunk, cs.CRD, cs.Inject, cs.Owner, verdict, nets))
	}()
	switch cs.Expect {
	case "unchanged":
		if verdict != "unchanged" {
			r.Violate("C18.touched-foreign-pod", cs.Scenario, fmt.Sprintf("pod that terway does not own was answered %s (patches %v, result %+v)", verdict, resp.Patches, resp.Result), rep)
		}
		return
	case "denied":
		if resp.Allowed {
			site := cs.Scenario
			r.Violate("C18.invalid-admitted", site, fmt.Sprintf("admission that must be refused (%s) was allowed with %d patches", cs.Scenario, len(resp.Patches)), rep)
		}
		return
	}
	if !resp.Allowed {
		if cs.Expect == "marked" && cs.UnionSG <= 10 { // (a default with more than ten groups may be refused)
			r.Violate("C18.valid-pod-refused", cs.Scenario, fmt.Sprintf("well-formed admission refused: %+v", resp.Result), rep)
		}
		return
	}
	if len(resp.Patches) == 0 {
		if cs.Expect == "marked" {
			r.Violate("C18.valid-pod-not-marked", cs.Scenario, "pod that requests a dedicated ENI left admission unchanged", rep)
		}
		return
	}
	pb, _ := json.Marshal(resp.Patches)
	patch, err := jsonpatch.DecodePatch(pb)
	if err != nil {
		r.Violate("C18.bad-patch", cs.Scenario, "patch does not decode: "+err.Error(), rep)
		return
	}
	out, err := patch.Apply(raw)
	if err != nil {
		r.Violate("C18.bad-patch", cs.Scenario, "patch does not apply to the submitted pod: "+err.Error(), rep)
		return
	}
	patched := &corev1.Pod{}
	if err := json.Unmarshal(out, patched); err != nil {
		r.Violate("C18.bad-patch", cs.Scenario, "patched pod does not decode: "+err.Error(), rep)
		return
	}
	rep["patched_annotations"] = patched.Annotations
	if patched.Annotations[types.PodENI] != "true" {
		return
	}
	parsed, err := controlplane.ParsePodNetworksFromAnnotation(patched)
	if err != nil || len(parsed.PodNetworks) == 0 {
		r.Violate("C18.network-list-unparsable", cs.Scenario, fmt.Sprintf("pod marked for a dedicated ENI but its network list does not parse / is empty: %v", err), rep)
		return
	}
	nets = len(parsed.PodNetworks)
	if cs.WantCount > 0 && nets != cs.WantCount {
		r.Violate("C18.network-count", cs.Scenario, fmt.Sprintf("%d networks emitted, %d requested", nets, cs.WantCount), rep)
	}
	seen := map[string]bool{}
	eniAttach := false
	for k, e := range parsed.PodNetworks {
		site := "eth0"
		if e.Interface != "eth0" {
			site = "non-eth0"
		}
		if len(e.Interface) < 1 || len(e.Interface) > 5 || seen[e.Interface] {
			r.Violate("C18.entry-incomplete", "interface", fmt.Sprintf("entry %d: interface %q (duplicate or not 1..5 characters)", k, e.Interface), rep)
		}
		seen[e.Interface] = true
		if len(e.VSwitchOptions) == 0 {
			r.Violate("C18.entry-incomplete", "vswitches/"+site+"/"+cs.Scenario, fmt.Sprintf("entry %d (%s) leaves admission without vSwitches", k, e.Interface), rep)
		}
		if len(e.SecurityGroupIDs) > 10 {
			r.Violate("C18.entry-incomplete", "security-groups", fmt.Sprintf("entry %d has %d security groups", k, len(e.SecurityGroupIDs)), rep)
		}
		if e.AllocationType == nil || e.AllocationType.Type == "" {
			r.Violate("C18.entry-incomplete", "allocation-type", fmt.Sprintf("entry %d has no allocation type", k), rep)
		} else if e.AllocationType.Type == v1beta1.IPAllocTypeFixed && !(cs.Owner == "" || cs.Owner == "StatefulSet") {
			r.Violate("C18.invalid-admitted", "fixed-ip-unstable-name", fmt.Sprintf("entry %d: fixed IP admitted for a pod owned by %s", k, cs.Owner), rep)
		}
		if e.ENIOptions.ENIAttachType == v1beta1.ENIOptionTypeENI {
			eniAttach = true
		}
	}
	if cs.Inject {
		want := "aliyun/member-eni"
		if !cs.Trunk || eniAttach {
			want = "aliyun/eni"
		}
		c0 := patched.Spec.Containers[0]
		rq, rok := c0.Resources.Requests[corev1.ResourceName(want)]
		lm, lok := c0.Resources.Limits[corev1.ResourceName(want)]
		if !rok || !lok || rq.Value() != int64(nets) || lm.Value() != int64(nets) {
			r.Violate("C18.device-request", want, fmt.Sprintf("container 0 requests/limits of %s = %v/%v, networks = %d", want, c0.Resources.Requests, c0.Resources.Limits, nets), rep)
		}
	} else {
		for name, q := range patched.Spec.Containers[0].Resources.Requests {
			if o, had := cs.Pod.Spec.Containers[0].Resources.Requests[name]; strings.HasPrefix(string(name), "aliyun/") && !(had && o.Cmp(q) == 0) {
				r.Violate("C18.device-request", "injection-off", "resource injected although injection is disabled", rep)
			}
		}
	}
	// zone affinity
	if aff := patched.Spec.Affinity; aff != nil && aff.NodeAffinity != nil && aff.NodeAffinity.RequiredDuringSchedulingIgnoredDuringExecution != nil && cs.Zones != nil {
		allowed := map[string]bool{}
		for _, z := range cs.Zones {
			allowed[z] = true
		}
		for _, term := range aff.NodeAffinity.RequiredDuringSchedulingIgnoredDuringExecution.NodeSelectorTerms {
			// a node must satisfy every expression of the term: the reachable zones are the intersection of the In sets
			var reach map[string]bool
			for _, ex := range term.MatchExpressions {
				if ex.Key != corev1.LabelTopologyZone || ex.Operator != corev1.NodeSelectorOpIn {
					continue
				}
				cur := map[string]bool{}
				for _, v := range ex.Values {
					if reach == nil || reach[v] {
						cur[v] = true
					}
				}
				reach = cur
			}
			var badZ []string
			for z := range reach {
				if !allowed[z] {
					badZ = append(badZ, z)
				}
			}
			sort.Strings(badZ)
			if len(badZ) > 0 {
				r.Violate("C18.zone-affinity", cs.Scenario, fmt.Sprintf("affinity lets the pod land in %v where not every requested network has a vSwitch (common zones %v)", badZ, cs.Zones), rep)
			}
		}
		r.Count("zone_affinities_judged", 1)
	}
}
