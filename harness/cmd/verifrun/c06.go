package main

// C06 — the node pool stays within cloud quotas and never disposes what is in use.
// Same harness as C01 (pool.go); the deciding oracle is the call-time guard on every
// factory.Factory call (poolMon.OnInvoke) plus the late-ack rule.

import (
	"fmt"
	"math/rand"
	"os"
	"time"

	"verifharness/cloudsim"
)

func init() {
	register("C06", &checkDef{level: "exploration", fn: runC06, race: poolRace,
		batches:  func(th bool) int { return map[bool]int{false: 4, true: 20}[th] },
		parallel: func(th bool) int { return 4 },
		timeout: func(th bool) time.Duration {
			return map[bool]time.Duration{false: 15 * time.Minute, true: 60 * time.Minute}[th]
		},
	})
}

func runC06(c *ctxT) {
	r := c.R
	n := 150
	if c.Thorough {
		n = 400
	}
	r.Rule = "pool histories as in C01, half of them edge-biased (cap 1..3, batch > cap, maxIdle 0, minIdle > capacity, trunk / erdma ENIs idle, bursts larger than one ENI, balancer ticks while requests are pending). Every cloud call is judged at invocation against the ledger of open holds, the cloud's per-ENI counts (+ assigns in flight) and the interface quota (+ creates in flight); an ADD served from an ENI whose deletion was already invoked is a late-ack violation. distinct = distinct canonical event-log signatures of histories with >=1 dispose/unassign/delete call or a window hit"
	r.Assumptions = []string{"cloud simulated at the factory.Factory boundary", "per-ENI limit and interface quota are the PoolConfig values the daemon derives from the instance type"}
	if c.Batch == 0 {
		c06CancelledAssign(c)
	}
	runPoolHistories(c, "C06", n, 100, func(i int, rng *rand.Rand) poolCfg {
		cfg := genPoolCfg(rng, i%2 == 0)
		cfg.Balancer = true
		if i%3 == 0 {
			// dispose pressure: no idle reserve allowed, balancer spinning, bursts of requests
			cfg.SpinBal = true
			cfg.MaxIdle, cfg.MinIdle = 0, 0
			cfg.CancelPct = 10
		}
		if i%5 == 0 {
			// interface creation that fails after the interface exists, while the requests that triggered it are queued
			cfg.Pre, cfg.PreV6, cfg.Trunk, cfg.StrayTrunk, cfg.StrayERDMA = nil, nil, false, false, false
			cfg.Faults = map[int]cloudsim.Fault{1: {Kind: cloudsim.FaultHalfCreated}, 1 + rng.Intn(4): {Kind: cloudsim.FaultErrAfter}}
			return cfg
		}
		if rng.Intn(2) == 0 {
			cfg.Faults = genFaults(rng, rng.Intn(5), 30)
		}
		return cfg
	}, func(h *poolHist) {
		// a few more balancer rounds at the end, with requests still possible
		for k := 0; k < 3; k++ {
			h.balance()
		}
		h.settle(20)
		for _, q := range h.cloud.QuotaEvents() {
			h.mon.mu.Lock()
			h.mon.violate("C06", "C06.cloud-side-quota-event", "cloud", "the cloud received a request exceeding a limit: "+q)
			h.mon.mu.Unlock()
		}
	})
}

// c06CancelledAssign (directed): an address assignment is in flight for one request; the request is cancelled, the
// only other holder leaves, and the balancer runs with nothing allowed idle. The interface has a call in flight: it
// must not be deleted under it (the addresses the call returns would land in a slot without an interface, and the
// next request served from them crashes the daemon). Seen first as a rare process crash in the random histories.
func c06CancelledAssign(c *ctxT) {
	for k := 0; k < 4; k++ {
		cfg := poolCfg{V4: true, V6: k%2 == 1, Slots: 1, Cap: 6, Batch: 2, Pre: []int{1}, PreV6: []int{1}, MinIdle: 0, MaxIdle: 0, Pods: 4, Clients: 0, LatencyUS: 1,
			Faults: map[int]cloudsim.Fault{1: {Kind: cloudsim.FaultNone, DelayB: 600 * time.Millisecond}}}
		hid := 960000 + k
		fmt.Printf("CASE C06 directed-cancelled-assign %d cfg %+v\n", hid, cfg)
		h := newPoolHist(c, "C06", hid, cfg, int64(hid)+c.R.Seed)
		h.add("ns/a", false, 0, 5*time.Second)
		done := make(chan struct{})
		go func() {
			defer close(done)
			h.add("ns/b", false, 650, 5*time.Second) // cancelled while its assign call (300 ms queueing + 600 ms) is in flight
		}()
		time.Sleep(750 * time.Millisecond)
		dbg := func(w string) {
			if os.Getenv("VERIF_C06_DBG") != "" {
				fmt.Printf("DBG %s: %s inflight=%d\n", w, h.status().key(), h.cloud.InflightTotal())
			}
		}
		dbg("before del a")
		h.del("ns/a")
		dbg("after del a")
		for i := 0; i < 3; i++ {
			h.balance()
			time.Sleep(40 * time.Millisecond)
		}
		dbg("after balance")
		<-done
		time.Sleep(600 * time.Millisecond) // the assign call returns
		dbg("after assign returned")
		h.add("ns/c", false, 0, 5*time.Second)
		h.settle(10)
		c.R.Eval(1)
		c.R.Count("directed_cancelled_assign_cases", 1)
		h.stop()
		h.finishEvidence(c.R, true)
	}
}
