package main

// C17, call sites: the per-interface selection policy of a pod's network list (pod controller) and the retry
// loop of the node agent's interface creation (real factory over the real OpenAPI client on a simulated HTTP
// cloud): a vSwitch the cloud reported exhausted must not be tried again.

import (
	"bytes"
	"context"
	"encoding/json"
	"fmt"
	"io"
	"math/rand"
	"net/http"
	"net/url"
	"sync"
	"time"

	"github.com/aliyun/alibaba-cloud-sdk-go/services/ecs"
	"k8s.io/apimachinery/pkg/util/wait"
	"k8s.io/client-go/tools/record"

	"verifharness/apisim"
	"verifharness/cloudsim"

	"github.com/AliyunContainerService/terway/pkg/aliyun/client"
	v1beta1 "github.com/AliyunContainerService/terway/pkg/apis/network.alibabacloud.com/v1beta1"
	"github.com/AliyunContainerService/terway/pkg/backoff"
	podctl "github.com/AliyunContainerService/terway/pkg/controller/pod"
	"github.com/AliyunContainerService/terway/pkg/factory/aliyun"
	"github.com/AliyunContainerService/terway/pkg/vswitch"
	"github.com/AliyunContainerService/terway/types/controlplane"
	tdaemon "github.com/AliyunContainerService/terway/types/daemon"
)

func c17PerInterface(c *ctxT, rng *rand.Rand, n int) {
	r := c.R
	for i := 0; i < n; i++ {
		cloud := cloudsim.NewCtrlCloud(func() int64 { return 0 }, int64(i))
		nv := 3 + rng.Intn(4)
		free := map[string]int64{}
		var all []string
		for k := 0; k < nv; k++ {
			id := fmt.Sprintf("vsw-%d", k)
			f := int64(rng.Intn(6)) * int64(1+rng.Intn(50)) // 0 is common
			cloud.AddVSW(id, "zone-a", k+1, f)
			free[id] = f
			all = append(all, id)
		}
		anno := &controlplane.PodNetworksAnnotation{}
		nIf := 2 + rng.Intn(2)
		var pols []string
		for k := 0; k < nIf; k++ {
			ids := append([]string(nil), all...)
			rng.Shuffle(len(ids), func(a, b int) { ids[a], ids[b] = ids[b], ids[a] })
			ids = ids[:2+rng.Intn(len(ids)-1)]
			pol := []string{"", "ordered", "most", "random"}[rng.Intn(4)]
			pols = append(pols, pol)
			anno.PodNetworks = append(anno.PodNetworks, controlplane.PodNetworks{Interface: fmt.Sprintf("eth%d", k), VSwitchOptions: ids, SecurityGroupIDs: []string{"sg-1"},
				VSwitchSelectOptions: v1beta1.VSwitchSelectOptions{VSwitchSelectionPolicy: v1beta1.SelectionPolicy(pol)}})
		}
		pool, _ := vswitch.NewSwitchPool(100, "1h")
		ctl := podctl.NewVerifReconcilePod(apisim.New(nil), apisim.Scheme(), cloud, pool, &record.FakeRecorder{}, false, false)
		allocs, err := ctl.ParsePodNetworksFromAnnotation(context.Background(), "zone-a", anno)
		r.Eval(1)
		r.DistinctKey(fmt.Sprintf("per-interface/%v/%v", pols, err == nil))
		rep := map[string]any{"networks": anno.PodNetworks, "free": free}
		for k, pn := range anno.PodNetworks {
			var eligible []string
			best := int64(-1)
			for _, id := range pn.VSwitchOptions {
				if free[id] > 0 {
					eligible = append(eligible, id)
					best = max(best, free[id])
				}
			}
			if err != nil || k >= len(allocs) {
				continue
			}
			got := allocs[k].ENI.VSwitchID
			r.Count("per_interface_selections_judged", 1)
			switch {
			case len(eligible) == 0:
			case !contains(eligible, got):
				r.Violate("C17.no-free-address", "per-interface/"+pols[k], fmt.Sprintf("interface %s got %s which is not an eligible candidate %v", pn.Interface, got, eligible), rep)
			case (pols[k] == "" || pols[k] == "ordered") && got != eligible[0]:
				r.Violate("C17.policy-ordered", "per-interface", fmt.Sprintf("interface %s (policy %q) got %s, the first eligible candidate of its list is %s (policies of the pod's interfaces: %v)", pn.Interface, pols[k], got, eligible[0], pols), rep)
			case pols[k] == "most" && free[got] != best:
				r.Violate("C17.policy-most", "per-interface", fmt.Sprintf("interface %s (policy most) got %s with %d free addresses, the best candidate has %d", pn.Interface, got, free[got], best), rep)
			}
		}
	}
}

// c17Transport: CreateNetworkInterface is refused with InvalidVSwitchId.IpNotEnough for the exhausted vSwitches.
type c17Transport struct {
	mu        sync.Mutex
	exhausted map[string]bool
	creates   []string
}

func (t *c17Transport) RoundTrip(req *http.Request) (*http.Response, error) {
	vals := req.URL.Query()
	if req.Body != nil {
		b, _ := io.ReadAll(req.Body)
		if fv, err := url.ParseQuery(string(b)); err == nil {
			for k, v := range fv {
				vals[k] = v
			}
		}
	}
	resp := func(code int, body any) (*http.Response, error) {
		b, _ := json.Marshal(body)
		return &http.Response{StatusCode: code, Status: fmt.Sprintf("%d", code), Body: io.NopCloser(bytes.NewReader(b)), Header: http.Header{"Content-Type": []string{"application/json"}}, Request: req, Proto: "HTTP/1.1", ProtoMajor: 1, ProtoMinor: 1}, nil
	}
	t.mu.Lock()
	defer t.mu.Unlock()
	switch vals.Get("Action") {
	case "CreateNetworkInterface":
		id := vals.Get("VSwitchId")
		t.creates = append(t.creates, id)
		if t.exhausted[id] {
			return resp(403, map[string]any{"RequestId": "r", "Code": "InvalidVSwitchId.IpNotEnough", "Message": "injected", "HostId": "ecs.sim"})
		}
		return resp(200, map[string]any{"RequestId": "r", "NetworkInterfaceId": "eni-1", "MacAddress": "00:16:3e:00:00:01", "PrivateIpAddress": "10.0.0.5", "VSwitchId": id, "Type": "Secondary", "Status": "Available",
			"PrivateIpSets": map[string]any{"PrivateIpSet": []any{map[string]any{"PrivateIpAddress": "10.0.0.5", "Primary": true}}}, "Ipv6Sets": map[string]any{"Ipv6Set": []any{}}})
	case "AttachNetworkInterface":
		return resp(403, map[string]any{"RequestId": "r", "Code": "Forbidden.RAM", "Message": "end of the probe", "HostId": "ecs.sim"})
	}
	return resp(200, map[string]any{"RequestId": "r"})
}

var c17BackoffOnce sync.Once

func c17Factory(c *ctxT, rng *rand.Rand, n int) {
	r := c.R
	c17BackoffOnce.Do(func() {
		backoff.OverrideBackoff(map[string]wait.Backoff{backoff.ENICreate: {Duration: 2 * time.Millisecond, Factor: 1, Steps: 6}})
	})
	for i := 0; i < n; i++ {
		tr := &c17Transport{exhausted: map[string]bool{}}
		ecsC, err := ecs.NewClientWithAccessKey("cn-sim", "ak", "sk")
		if err != nil {
			r.Inconclusive("cannot build the SDK client offline: " + err.Error())
			return
		}
		ecsC.Domain = "ecs.sim.local"
		ecsC.SetTransport(tr)
		ecsC.GetConfig().AutoRetry = false
		api, err := client.New(&c16Clients{e: ecsC}, client.LimitConfig{})
		if err != nil {
			r.Inconclusive("client.New: " + err.Error())
			return
		}
		pool, _ := vswitch.NewSwitchPool(100, "1h")
		nv := 2 + rng.Intn(4)
		var ids []string
		for k := 0; k < nv; k++ {
			id := fmt.Sprintf("vsw-%d", k)
			ids = append(ids, id)
			// the cached free count is stale for the exhausted ones: they still look usable (or even best)
			pool.Add(&vswitch.Switch{ID: id, Zone: "zone-a", AvailableIPCount: int64(5 + rng.Intn(200))})
			if rng.Intn(2) == 0 && k < nv-1 {
				tr.exhausted[id] = true
			}
		}
		pol := []vswitch.SelectionPolicy{vswitch.VSwitchSelectionPolicyOrdered, vswitch.VSwitchSelectionPolicyMost, vswitch.VSwitchSelectionPolicyRandom}[rng.Intn(3)]
		f := aliyun.NewAliyun(context.Background(), api, nil, pool, &tdaemon.ENIConfig{ZoneID: "zone-a", VSwitchOptions: ids, EnableIPv4: true, InstanceID: "i-1", SecurityGroupIDs: []string{"sg-1"}, VSwitchSelectionPolicy: pol})
		for call := 0; call < 2; call++ {
			func() {
				defer func() {
					if e := recover(); e != nil {
						r.Violate("C17.panic", "factory-create", fmt.Sprint(e), map[string]any{"policy": pol})
					}
				}()
				_, _, _, _ = f.CreateNetworkInterface(1, 0, "secondary")
			}()
		}
		r.Eval(1)
		tr.mu.Lock()
		seen := map[string]bool{}
		for k, id := range tr.creates {
			if seen[id] && tr.exhausted[id] {
				r.Violate("C17.exhausted-chosen-again", "factory-retry/"+string(pol), fmt.Sprintf("create attempts went to %v: %s had just been reported exhausted (attempt %d) and was tried again before its cache entry expired", tr.creates, id, k+1), map[string]any{"attempts": tr.creates, "exhausted": tr.exhausted, "policy": pol})
				break
			}
			seen[id] = true
		}
		r.Count("factory_create_attempts_observed", int64(len(tr.creates)))
		r.DistinctKey(fmt.Sprintf("factory/%s/n%d/exh%d", pol, nv, len(tr.exhausted)))
		tr.mu.Unlock()
	}
}
