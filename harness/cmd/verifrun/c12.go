package main

// C12 — every ADD yields a complete, self-consistent network configuration.
// Daemon half: replies of the real networkService.AllocIP in its three allocation modes
// (local pool, CRD-based multi-IP, PodENI multi-interface) judged against an independent
// evaluator. Plugin half: in-package monitor (overlay) in plugin/terway.

import (
	"context"
	"encoding/json"
	"fmt"
	"math/big"
	"math/rand"
	"net/netip"
	"strings"
	"sync"
	"time"

	corev1 "k8s.io/api/core/v1"
	metav1 "k8s.io/apimachinery/pkg/apis/meta/v1"
	k8stypes "k8s.io/apimachinery/pkg/types"
	"k8s.io/apimachinery/pkg/util/wait"
	"sigs.k8s.io/controller-runtime/pkg/client"

	"github.com/AliyunContainerService/terway/daemon"
	"github.com/AliyunContainerService/terway/pkg/apis/network.alibabacloud.com/v1beta1"
	"github.com/AliyunContainerService/terway/pkg/backoff"
	"github.com/AliyunContainerService/terway/pkg/eni"
	"github.com/AliyunContainerService/terway/pkg/k8s"
	"github.com/AliyunContainerService/terway/pkg/storage"
	"github.com/AliyunContainerService/terway/rpc"
	"github.com/AliyunContainerService/terway/types"
	tdaemon "github.com/AliyunContainerService/terway/types/daemon"

	"verifharness/apisim"
	"verifharness/monitor"
)

func init() {
	register("C12", &checkDef{level: "exploration", fn: runC12,
		batches:  func(th bool) int { return map[bool]int{false: 2, true: 8}[th] },
		parallel: func(th bool) int { return 2 },
		timeout: func(th bool) time.Duration {
			return map[bool]time.Duration{false: 15 * time.Minute, true: 60 * time.Minute}[th]
		},
	})
}

var backoffOnce sync.Once

func shortBackoffs() {
	backoffOnce.Do(func() {
		backoff.OverrideBackoff(map[string]wait.Backoff{
			backoff.WaitPodENIStatus: {Duration: 2 * time.Millisecond, Factor: 1, Steps: 3},
			backoff.WaitNodeStatus:   {Duration: 2 * time.Millisecond, Factor: 1, Steps: 3},
		})
	})
}

// thirdFromLast: independent computation of the reserved gateway of a subnet ("" when too small)
func thirdFromLast(cidr string) string {
	p, err := netip.ParsePrefix(cidr)
	if err != nil {
		return ""
	}
	p = p.Masked()
	bits := p.Addr().BitLen()
	first := new(big.Int).SetBytes(p.Addr().AsSlice())
	last := new(big.Int).Add(first, new(big.Int).Lsh(big.NewInt(1), uint(bits-p.Bits())))
	last.Sub(last, big.NewInt(3))
	buf := make([]byte, bits/8)
	if last.Sign() < 0 || last.BitLen() > bits {
		return ""
	}
	last.FillBytes(buf)
	a, _ := netip.AddrFromSlice(buf)
	if !p.Contains(a) {
		return ""
	}
	return a.String()
}

// c12JudgeGet: the configuration the daemon returns for the same sandbox on a status query (CNI CHECK / DEL
// read it) is judged like the ADD reply and must equal it.
func c12JudgeGet(r *monitor.Result, mode string, svc *daemon.VerifService, add *rpc.AllocIPReply, rep map[string]any) {
	ctx, cancel := context.WithTimeout(context.Background(), 3*time.Second)
	defer cancel()
	got, err := svc.GetIPInfo(ctx, &rpc.GetInfoRequest{K8SPodName: "p", K8SPodNamespace: "ns", K8SPodInfraContainerId: "c0"})
	r.Count("status_query_replies_judged", 1)
	if err != nil || got == nil {
		r.Violate("C12.status-query-differs", mode+"/error", fmt.Sprintf("status query for the sandbox that was just added failed: %v", err), rep)
		return
	}
	c12Judge(r, mode+"/status-query", &rpc.AllocIPReply{NetConfs: got.NetConfs}, rep)
	a, _ := json.Marshal(add.NetConfs)
	g, _ := json.Marshal(got.NetConfs)
	if string(a) != string(g) {
		rep2 := map[string]any{}
		for k, v := range rep {
			rep2[k] = v
		}
		rep2["status_query_netconfs"] = got.NetConfs
		r.Violate("C12.status-query-differs", mode, "the configuration returned by the status query differs from the ADD reply", rep2)
	}
}

// c12Judge checks one successful AllocIP reply.
func c12Judge(r *monitor.Result, mode string, reply *rpc.AllocIPReply, rep map[string]any) {
	if len(reply.NetConfs) == 0 {
		r.Violate("C12.no-primary-interface", mode+"/empty", "successful reply carries no network configuration at all", rep)
		return
	}
	defaults, primary := 0, 0
	for i, nc := range reply.NetConfs {
		if nc.DefaultRoute {
			defaults++
		}
		if nc.IfName == "" || nc.IfName == "eth0" {
			primary++
		}
		bi := nc.BasicInfo
		if bi == nil || bi.PodIP == nil || bi.PodCIDR == nil || bi.GatewayIP == nil {
			r.Violate("C12.incomplete-conf", mode, fmt.Sprintf("conf %d lacks BasicInfo/PodIP/PodCIDR/GatewayIP: %+v", i, nc), rep)
			continue
		}
		for _, f := range []struct{ fam, ip, cidr, gw string }{{"v4", bi.PodIP.IPv4, bi.PodCIDR.IPv4, bi.GatewayIP.IPv4}, {"v6", bi.PodIP.IPv6, bi.PodCIDR.IPv6, bi.GatewayIP.IPv6}} {
			if f.ip == "" {
				if f.cidr != "" && mode != "local" {
					// a subnet without an address of that family is harmless; nothing to judge
				}
				continue
			}
			a, err1 := netip.ParseAddr(f.ip)
			p, err2 := netip.ParsePrefix(f.cidr)
			if err1 != nil || err2 != nil {
				r.Violate("C12.address-outside-subnet", mode+"/"+f.fam+"/unparsable", fmt.Sprintf("conf %d: address %q subnet %q", i, f.ip, f.cidr), rep)
				continue
			}
			if !p.Masked().Contains(a) {
				r.Violate("C12.address-outside-subnet", mode+"/"+f.fam, fmt.Sprintf("conf %d: address %s is not inside the reported subnet %s", i, f.ip, f.cidr), rep)
			}
			want := thirdFromLast(f.cidr)
			g, err := netip.ParseAddr(f.gw)
			if err != nil || want == "" || g.String() != want {
				r.Violate("C12.gateway-not-reserved-address", mode+"/"+f.fam, fmt.Sprintf("conf %d: gateway %q, the subnet's reserved gateway (third from last of %s) is %q", i, f.gw, f.cidr, want), rep)
			}
			if f.gw == f.ip {
				r.Violate("C12.gateway-equals-address", mode+"/"+f.fam, fmt.Sprintf("conf %d: gateway equals the pod address %s", i, f.ip), rep)
			}
		}
	}
	if defaults != 1 {
		r.Violate("C12.default-route-count", fmt.Sprintf("%s/%d", mode, min(defaults, 2)), fmt.Sprintf("%d interfaces carry the default route (of %d)", defaults, len(reply.NetConfs)), rep)
	}
	if primary == 0 {
		r.Violate("C12.no-primary-interface", mode, "no interface named eth0 (or unnamed) in the reply", rep)
	}
}

func runC12(c *ctxT) {
	r := c.R
	shortBackoffs()
	rng := rand.New(rand.NewSource(r.Seed*31 + int64(c.Batch)))
	nLocal, nCRD, nPodENI := 6, 1500, 2500
	if c.Thorough {
		nLocal, nCRD, nPodENI = 30, 15000, 30000
	}
	r.Rule = "daemon half: AllocIP replies of the real networkService in (i) local-pool mode (daemon histories), (ii) CRD mode over generated Node CRs (IPv4/IPv6/dual, 1..4 interfaces, subnets /16../28 and /64), (iii) PodENI mode over generated PodENI objects (1..4 interfaces, trunk or not, extra routes, 0/1/2 default-route flags, with/without eth0): one default route, primary interface present, address inside subnet, gateway = third-from-last (independent big-int computation) and != address; inputs with two default routes or no primary interface must be rejected. plugin half (in-package, plugin/terway): generated daemon configurations x CNI configs: datapath equals the (IP type, trunk, vlan mode) table in ADD/CHECK/DEL, every address/route/limit recovered exactly. distinct = distinct (mode, families, #interfaces, default-flag pattern, trunk) classes"
	r.Assumptions = []string{"PodENI / Node CR contents are generated well-formed except for the default-route/primary-interface patterns under test", "ENI MAC is \"\" (resolves to lo) where a kernel device is needed"}

	// (i) local pool
	for i := 0; i < nLocal; i++ {
		seed := r.Seed*7919 + int64(c.Batch)*1000003 + int64(i)
		hr := dRand(seed)
		cfg := genPoolCfg(hr, false)
		cfg.ERDMA, cfg.Trunk, cfg.Drift, cfg.V4, cfg.StrayTrunk, cfg.StrayERDMA = false, false, false, true, false, false
		for k := range cfg.Pre {
			if cfg.Pre[k] < 1 {
				cfg.Pre[k] = 1
			}
		}
		d, err := newDHist(c, "C12", c.Batch*100000+i, cfg, seed, types.IPAMTypeDefault)
		if err != nil {
			r.Inconclusive(err.Error())
			continue
		}
		for p := 0; p < 6+hr.Intn(10); p++ {
			d.ensurePod(p, false)
			ctx, cancel := context.WithTimeout(context.Background(), 3*time.Second)
			res := d.rpcAdd(ctx, p, "c0")
			cancel()
			r.Eval(1)
			if res.Err != nil {
				continue
			}
			rep := map[string]any{"mode": "local", "config": cfg, "pod": p, "netconfs": res.NetConfs}
			c12Judge(r, "local", &rpc.AllocIPReply{NetConfs: res.NetConfs}, rep)
			r.DistinctKey(fmt.Sprintf("local/v6%v/if%d", cfg.V6, len(res.NetConfs)))
			if i == 0 && p == 0 {
				r.Sample(rep)
			}
		}
		d.stop()
	}

	// (ii) CRD mode
	for i := 0; i < nCRD; i++ {
		c12CRD(c, rng, i)
	}
	// (iii) PodENI mode
	for i := 0; i < nPodENI; i++ {
		c12PodENI(c, rng, i)
	}
	if c.Batch == 0 {
		runInpkg(c, "pluginterway.test", "TestVerifC12Plugin", false)
	}
}

func genSubnet(rng *rand.Rand, v6 bool) (cidr string, inside func() string) {
	if v6 {
		p := netip.MustParsePrefix(fmt.Sprintf("fd00:%x:%x::/64", rng.Intn(65535), rng.Intn(65535)))
		return p.String(), func() string {
			b := p.Addr().As16()
			b[15] = byte(1 + rng.Intn(200))
			b[14] = byte(rng.Intn(255))
			return netip.AddrFrom16(b).String()
		}
	}
	bits := 16 + rng.Intn(13)
	p := netip.PrefixFrom(netip.AddrFrom4([4]byte{byte([]int{10, 172, 192}[rng.Intn(3)]), byte(rng.Intn(255)), byte(rng.Intn(255)), 0}), bits).Masked()
	return p.String(), func() string {
		b := p.Addr().As4()
		host := 1 + rng.Intn((1<<(32-bits))-6)
		v := uint32(b[0])<<24 | uint32(b[1])<<16 | uint32(b[2])<<8 | uint32(b[3])
		v += uint32(host)
		return netip.AddrFrom4([4]byte{byte(v >> 24), byte(v >> 16), byte(v >> 8), byte(v)}).String()
	}
}

func c12Service(cl client.WithWatch, node *corev1.Node, nis []eni.NetworkInterface, ipam types.IPAMType, v4, v6 bool) *daemon.VerifService {
	svcCIDR := &types.IPNetSet{}
	svcCIDR.SetIPNet("172.16.0.0/16")
	kube := k8s.NewVerifK8S(cl, tdaemon.ModeENIMultiIP, node, storage.NewMemoryStorage(), svcCIDR, false)
	mgr := eni.NewManager(0, 0, 0, 0, nis, tdaemon.EniSelectionPolicyMostIPs, nil)
	return daemon.NewVerifService(kube, storage.NewMemoryStorage(), mgr, tdaemon.ModeENIMultiIP, ipam, v4, v6, false)
}

func c12CRD(c *ctxT, rng *rand.Rand, idx int) {
	r := c.R
	v4 := rng.Intn(4) != 0
	v6 := !v4 || rng.Intn(2) == 0
	node := &corev1.Node{ObjectMeta: metav1.ObjectMeta{Name: "node-1"}}
	pod := &corev1.Pod{ObjectMeta: metav1.ObjectMeta{Name: "p", Namespace: "ns", UID: "uid-p"}, Spec: corev1.PodSpec{NodeName: "node-1", Containers: []corev1.Container{{Name: "c"}}}}
	cr := &v1beta1.Node{ObjectMeta: metav1.ObjectMeta{Name: "node-1"}, Spec: v1beta1.NodeSpec{ENISpec: &v1beta1.ENISpec{EnableIPv4: v4, EnableIPv6: v6}}}
	st := v1beta1.NodeStatus{NetworkInterfaces: map[string]*v1beta1.NetworkInterface{}}
	nEni := 1 + rng.Intn(4)
	bound := rng.Intn(nEni)
	for e := 0; e < nEni; e++ {
		id := fmt.Sprintf("eni-%d", e)
		ni := &v1beta1.NetworkInterface{ID: id, Status: "InUse", MacAddress: "", NetworkInterfaceType: "Secondary", NetworkInterfaceTrafficMode: v1beta1.NetworkInterfaceTrafficModeStandard, IPv4: map[string]*v1beta1.IP{}, IPv6: map[string]*v1beta1.IP{}}
		c4, in4 := genSubnet(rng, false)
		c6, in6 := genSubnet(rng, true)
		ni.IPv4CIDR, ni.IPv6CIDR = c4, c6
		for k := 0; k < 1+rng.Intn(4); k++ {
			if v4 {
				a := in4()
				ni.IPv4[a] = &v1beta1.IP{IP: a, Status: v1beta1.IPStatusValid}
			}
			if v6 {
				a := in6()
				ni.IPv6[a] = &v1beta1.IP{IP: a, Status: v1beta1.IPStatusValid}
			}
		}
		if e == bound {
			if v4 {
				a := in4()
				ni.IPv4[a] = &v1beta1.IP{IP: a, Status: v1beta1.IPStatusValid, PodID: "ns/p", PodUID: []string{"uid-p", ""}[rng.Intn(2)]}
			}
			if v6 {
				a := in6()
				ni.IPv6[a] = &v1beta1.IP{IP: a, Status: v1beta1.IPStatusValid, PodID: "ns/p", PodUID: "uid-p"}
			}
		}
		st.NetworkInterfaces[id] = ni
	}
	cl := apisim.New(nil, node, pod, cr)
	cur := &v1beta1.Node{}
	_ = cl.Get(context.Background(), client.ObjectKey{Name: "node-1"}, cur)
	cur.Status = st
	if err := cl.Status().Update(context.Background(), cur); err != nil {
		r.Inconclusive("cannot write Node CR status: " + err.Error())
		return
	}
	svc := c12Service(cl, node, []eni.NetworkInterface{eni.NewVerifCRDV2(cl, apisim.Scheme(), "node-1")}, types.IPAMTypeCRD, v4, v6)
	ctx, cancel := context.WithTimeout(context.Background(), 3*time.Second)
	defer cancel()
	reply, err := svc.AllocIP(ctx, &rpc.AllocIPRequest{K8SPodName: "p", K8SPodNamespace: "ns", K8SPodInfraContainerId: "c0", Netns: "/proc/1/ns/net", IfName: "eth0"})
	r.Eval(1)
	rep := map[string]any{"mode": "crd", "node_status": st}
	r.DistinctKey(fmt.Sprintf("crd/v4%v/v6%v/enis%d/%v", v4, v6, nEni, err == nil))
	if err != nil {
		r.Violate("C12.valid-allocation-rejected", "crd", fmt.Sprintf("CRD allocation with a bound address was rejected: %v", err), rep)
		return
	}
	rep["netconfs"] = reply.NetConfs
	c12Judge(r, "crd", reply, rep)
	c12JudgeGet(r, "crd", svc, reply, rep)
	// the reply must carry exactly the bound addresses
	g4, g6, _ := addrsOf(reply.NetConfs)
	var w4, w6 string
	for _, ip := range st.NetworkInterfaces[fmt.Sprintf("eni-%d", bound)].IPv4 {
		if ip.PodID != "" {
			w4 = ip.IP
		}
	}
	for _, ip := range st.NetworkInterfaces[fmt.Sprintf("eni-%d", bound)].IPv6 {
		if ip.PodID != "" {
			w6 = ip.IP
		}
	}
	if addrStr(g4) != w4 || addrStr(g6) != w6 {
		r.Violate("C12.reply-differs-from-record", "crd", fmt.Sprintf("reply has %s/%s, the IPAM record binds %s/%s", addrStr(g4), addrStr(g6), w4, w6), rep)
	}
	if idx < 1 {
		r.Sample(rep)
	}
}

func c12PodENI(c *ctxT, rng *rand.Rand, idx int) {
	r := c.R
	trunk := rng.Intn(2) == 0
	node := &corev1.Node{ObjectMeta: metav1.ObjectMeta{Name: "node-1", Annotations: map[string]string{}}}
	pod := &corev1.Pod{ObjectMeta: metav1.ObjectMeta{Name: "p", Namespace: "ns", UID: k8stypes.UID("uid-p"), Annotations: map[string]string{types.PodENI: "true"}}, Spec: corev1.PodSpec{NodeName: "node-1", Containers: []corev1.Container{{Name: "c"}}}}
	pe := &v1beta1.PodENI{ObjectMeta: metav1.ObjectMeta{Name: "p", Namespace: "ns", Annotations: map[string]string{types.PodUID: "uid-p"}}}
	nIf := 1 + rng.Intn(4)
	names := []string{"eth0", "eth1", "net1", "net2", "e4"}
	withEth0 := rng.Intn(6) != 0
	pattern := rng.Intn(6) // 0: none flagged, 1..3: exactly one flagged (random), 4: two flagged, 5: all flagged
	flagged := map[int]bool{}
	switch pattern {
	case 1, 2, 3:
		flagged[rng.Intn(nIf)] = true
	case 4:
		flagged[rng.Intn(nIf)] = true
		flagged[rng.Intn(nIf)] = true
	case 5:
		for k := 0; k < nIf; k++ {
			flagged[k] = true
		}
	}
	st := v1beta1.PodENIStatus{Phase: v1beta1.ENIPhaseBind, ENIInfos: map[string]v1beta1.ENIInfo{}}
	v4 := rng.Intn(4) != 0
	v6 := !v4 || rng.Intn(2) == 0
	for k := 0; k < nIf; k++ {
		name := names[k]
		if k == 0 && !withEth0 {
			name = "net0"
		}
		al := v1beta1.Allocation{Interface: name, DefaultRoute: flagged[k], ENI: v1beta1.ENI{ID: fmt.Sprintf("eni-%d", k), MAC: ""}}
		if v4 {
			cidr, in := genSubnet(rng, false)
			al.IPv4, al.IPv4CIDR = in(), cidr
		}
		if v6 {
			cidr, in := genSubnet(rng, true)
			al.IPv6, al.IPv6CIDR = in(), cidr
		}
		for x := 0; x < rng.Intn(3); x++ {
			al.ExtraRoutes = append(al.ExtraRoutes, v1beta1.Route{Dst: fmt.Sprintf("192.168.%d.0/24", rng.Intn(255))})
		}
		pe.Spec.Allocations = append(pe.Spec.Allocations, al)
		st.ENIInfos[al.ENI.ID] = v1beta1.ENIInfo{ID: al.ENI.ID, Vid: 100 + k, Status: v1beta1.ENIStatusBind}
	}
	objs := []client.Object{node, pod, pe}
	var nis []eni.NetworkInterface
	cl := apisim.New(nil, objs...)
	cur := &v1beta1.PodENI{}
	_ = cl.Get(context.Background(), client.ObjectKey{Namespace: "ns", Name: "p"}, cur)
	cur.Status = st
	if trunk {
		cur.Status.TrunkENIID = "eni-trunk"
	}
	if err := cl.Status().Update(context.Background(), cur); err != nil {
		r.Inconclusive("cannot write PodENI status: " + err.Error())
		return
	}
	var tr *tdaemon.ENI
	if trunk {
		tr = &tdaemon.ENI{ID: "eni-trunk", MAC: "", Trunk: true}
		tr.GatewayIP.SetIP("10.255.255.253")
	}
	nis = append(nis, eni.NewRemote(cl, tr))
	svc := c12Service(cl, node, nis, types.IPAMTypeDefault, v4, v6)
	ctx, cancel := context.WithTimeout(context.Background(), 3*time.Second)
	defer cancel()
	reply, err := svc.AllocIP(ctx, &rpc.AllocIPRequest{K8SPodName: "p", K8SPodNamespace: "ns", K8SPodInfraContainerId: "c0", Netns: "/proc/1/ns/net", IfName: "eth0"})
	r.Eval(1)
	nFlag := len(flagged)
	rep := map[string]any{"mode": "podeni", "trunk": trunk, "allocations": pe.Spec.Allocations}
	r.DistinctKey(fmt.Sprintf("podeni/v4%v/v6%v/if%d/eth0%v/flags%d/trunk%v/%v", v4, v6, nIf, withEth0, min(nFlag, 3), trunk, err == nil))
	mustReject := nFlag >= 2 || !withEth0
	if err != nil {
		if !mustReject {
			r.Violate("C12.valid-allocation-rejected", "podeni", fmt.Sprintf("well-formed PodENI (%d interfaces, %d default flags, eth0 present) rejected: %v", nIf, nFlag, err), rep)
		}
		return
	}
	rep["netconfs"] = reply.NetConfs
	if mustReject {
		why := "two default-route interfaces"
		if !withEth0 {
			why = "no primary interface"
		}
		r.Violate("C12.malformed-allocation-accepted", strings.ReplaceAll(why, " ", "-"), fmt.Sprintf("PodENI with %s was accepted", why), rep)
		return
	}
	c12Judge(r, "podeni", reply, rep)
	c12JudgeGet(r, "podeni", svc, reply, rep)
	if len(reply.NetConfs) != nIf {
		r.Violate("C12.reply-differs-from-record", "podeni/interfaces", fmt.Sprintf("%d interfaces in the reply, the PodENI has %d", len(reply.NetConfs), nIf), rep)
	}
	for k, nc := range reply.NetConfs {
		if k >= nIf {
			break
		}
		al := pe.Spec.Allocations[k]
		if nc.IfName != al.Interface || nc.BasicInfo == nil || nc.BasicInfo.PodIP.IPv4 != al.IPv4 || nc.BasicInfo.PodIP.IPv6 != al.IPv6 || len(nc.ExtraRoutes) != len(al.ExtraRoutes) {
			r.Violate("C12.reply-differs-from-record", "podeni/values", fmt.Sprintf("interface %d: reply %+v, record %+v", k, nc, al), rep)
		}
		if trunk && (nc.ENIInfo == nil || !nc.ENIInfo.Trunk || nc.ENIInfo.Vid != uint32(100+k)) {
			r.Violate("C12.reply-differs-from-record", "podeni/trunk", fmt.Sprintf("interface %d: trunk info %+v, expected vid %d", k, nc.ENIInfo, 100+k), rep)
		}
	}
	if idx < 1 {
		r.Sample(rep)
	}
}
