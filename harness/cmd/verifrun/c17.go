package main

// C17 — vSwitch selection honours zone, capacity and policy without side effects.
// Real vswitch.SwitchPool over a simulated VPC. Oracle: independent eligibility evaluator
// + caller-slice snapshot comparison + Block/expiry histories + race detector on shared use.

import (
	"verifharness/cloudsim"
	"context"
	"fmt"
	"math/rand"
	"reflect"
	"strings"
	"sync"
	"time"

	"github.com/aliyun/alibaba-cloud-sdk-go/services/vpc"

	"github.com/AliyunContainerService/terway/pkg/vswitch"
)

func init() {
	register("C17", &checkDef{level: "exploration", fn: runC17, race: func(rep string) (string, bool) {
		if strings.Contains(rep, "pkg/vswitch.") {
			return "vswitch-pool", true
		}
		return "", false
	}, netns: true})
}

type simVPC struct {
	mu    sync.Mutex
	sw    map[string]*vpc.VSwitch
	fail  map[string]bool
	calls map[string]int
	delay time.Duration
}

func (s *simVPC) DescribeVSwitchByID(ctx context.Context, id string) (*vpc.VSwitch, error) {
	s.mu.Lock()
	s.calls[id]++
	d := s.delay
	v, ok := s.sw[id]
	f := s.fail[id]
	var cp vpc.VSwitch
	if ok {
		cp = *v
	}
	s.mu.Unlock()
	if d > 0 {
		time.Sleep(d)
	}
	if f || !ok {
		return nil, fmt.Errorf("InvalidVSwitchId.NotFound %s", id)
	}
	return &cp, nil
}

type c17Case struct {
	Zones   []string
	VSW     map[string][2]any // id -> [zone, free]
	Fail    []string
	IDs     []string
	Zone    string
	Policy  string
	Ignore  bool
	Blocked []string
}

func genC17(rng *rand.Rand) (*simVPC, c17Case) {
	nz := 1 + rng.Intn(3)
	zones := []string{"zone-a", "zone-b", "zone-c"}[:nz]
	sim := &simVPC{sw: map[string]*vpc.VSwitch{}, fail: map[string]bool{}, calls: map[string]int{}}
	cs := c17Case{Zones: zones, VSW: map[string][2]any{}}
	n := rng.Intn(8)
	for i := 0; i < n; i++ {
		id := fmt.Sprintf("vsw-%d", i)
		z := zones[rng.Intn(nz)]
		free := int64(0)
		switch rng.Intn(4) {
		case 0:
			free = 0
		case 1:
			free = int64(1 + rng.Intn(3))
		default:
			free = int64(rng.Intn(200))
		}
		sim.sw[id] = &vpc.VSwitch{VSwitchId: id, ZoneId: z, AvailableIpAddressCount: free, CidrBlock: fmt.Sprintf("10.%d.0.0/16", i), Ipv6CidrBlock: fmt.Sprintf("fd00:%d::/64", i)}
		cs.VSW[id] = [2]any{z, free}
	}
	// candidate list: subset, duplicates, unknown ids
	m := rng.Intn(9)
	for i := 0; i < m; i++ {
		switch {
		case n > 0 && rng.Intn(10) < 8:
			cs.IDs = append(cs.IDs, fmt.Sprintf("vsw-%d", rng.Intn(n)))
		case rng.Intn(2) == 0:
			cs.IDs = append(cs.IDs, fmt.Sprintf("vsw-unknown-%d", rng.Intn(3)))
		default:
			id := fmt.Sprintf("vsw-err-%d", rng.Intn(2))
			sim.sw[id] = &vpc.VSwitch{VSwitchId: id, ZoneId: zones[0], AvailableIpAddressCount: 50}
			sim.fail[id] = true
			cs.Fail = append(cs.Fail, id)
			cs.IDs = append(cs.IDs, id)
		}
	}
	cs.Zone = zones[rng.Intn(nz)]
	if rng.Intn(8) == 0 {
		cs.Zone = "zone-none"
	}
	cs.Policy = []string{"", "ordered", "random", "most"}[rng.Intn(4)]
	cs.Ignore = rng.Intn(3) == 0
	return sim, cs
}

// eligible returns (in-zone eligible ids in list order, fallback eligible ids in list order) given blocked set
func (cs c17Case) eligible(sim *simVPC, blocked map[string]bool) (in, fb []string) {
	for _, id := range cs.IDs {
		v, ok := sim.sw[id]
		if !ok || sim.fail[id] {
			continue
		}
		if v.AvailableIpAddressCount == 0 || blocked[id] {
			continue
		}
		if v.ZoneId == cs.Zone {
			in = append(in, id)
		} else if cs.Ignore {
			fb = append(fb, id)
		}
	}
	return
}

func contains(l []string, s string) bool {
	for _, x := range l {
		if x == s {
			return true
		}
	}
	return false
}

func (cs c17Case) opts() []vswitch.SelectOption {
	return []vswitch.SelectOption{&vswitch.SelectOptions{IgnoreZone: cs.Ignore, VSwitchSelectPolicy: vswitch.SelectionPolicy(cs.Policy)}}
}

func c17Judge(c *ctxT, cs c17Case, sim *simVPC, blocked map[string]bool, got *vswitch.Switch, err error, phase string) {
	r := c.R
	in, fb := cs.eligible(sim, blocked)
	site := fmt.Sprintf("policy=%s/%s", cs.Policy, phase)
	rep := map[string]any{"case": cs, "phase": phase}
	if err != nil || got == nil {
		if len(in)+len(fb) > 0 {
			r.Violate("C17.error-though-eligible", site, fmt.Sprintf("GetOne failed (%v) although eligible candidates exist: in-zone %v fallback %v", err, in, fb), rep)
		}
		return
	}
	if !contains(cs.IDs, got.ID) {
		r.Violate("C17.not-from-list", site, fmt.Sprintf("chose %s which is not in %v", got.ID, cs.IDs), rep)
		return
	}
	truth := sim.sw[got.ID]
	if truth == nil {
		r.Violate("C17.not-from-list", site, "chose unknown switch "+got.ID, rep)
		return
	}
	if truth.ZoneId != cs.Zone && !cs.Ignore {
		r.Violate("C17.wrong-zone", site, fmt.Sprintf("chose %s in %s, requested zone %s without fallback", got.ID, truth.ZoneId, cs.Zone), rep)
	}
	if truth.ZoneId != cs.Zone && cs.Ignore && len(in) > 0 {
		r.Violate("C17.wrong-zone", site+"/fallback-before-zone", fmt.Sprintf("chose out-of-zone %s although in-zone %v were eligible", got.ID, in), rep)
	}
	if truth.AvailableIpAddressCount == 0 {
		r.Violate("C17.no-free-address", site, fmt.Sprintf("chose %s which has no free address", got.ID), rep)
	}
	if blocked[got.ID] {
		r.Violate("C17.blocked-chosen", site, fmt.Sprintf("chose %s which was reported exhausted (Block) and whose cache entry has not expired", got.ID), rep)
	}
	if got.Zone != truth.ZoneId || got.IPv4CIDR != truth.CidrBlock || got.IPv6CIDR != truth.Ipv6CidrBlock {
		r.Violate("C17.corrupt-result", site, fmt.Sprintf("returned switch %+v disagrees with cloud %+v", *got, *truth), rep)
	}
	pool := in
	if len(in) == 0 {
		pool = fb
	}
	if len(pool) == 0 {
		return // already flagged above
	}
	switch cs.Policy {
	case "", "ordered":
		if got.ID != pool[0] {
			r.Violate("C17.ordered-not-first", site, fmt.Sprintf("chose %s, first eligible candidate is %s (list %v)", got.ID, pool[0], cs.IDs), rep)
		}
	case "most":
		var best int64 = -1
		for _, id := range pool {
			if f := sim.sw[id].AvailableIpAddressCount; f > best {
				best = f
			}
		}
		if truth.AvailableIpAddressCount < best && contains(pool, got.ID) {
			r.Violate("C17.most-not-max", site, fmt.Sprintf("chose %s with %d free, an eligible candidate has %d", got.ID, truth.AvailableIpAddressCount, best), rep)
		}
	}
}

func runC17(c *ctxT) {
	r := c.R
	rng := rand.New(rand.NewSource(r.Seed))
	nSeq, nHist, nConc := 30000, 300, 150
	if c.Thorough {
		nSeq, nHist, nConc = 1500000, 6000, 3000
	}
	r.Rule = "generated candidate lists (0..8 ids, duplicates, unknown ids, describe errors) × 1..3 zones × free counts incl. 0 × policies {unset, ordered, random, most} × IgnoreZone; Block/expiry histories on a 1h-TTL and a 50ms-TTL pool; concurrent GetOne/Block on one shared pool and one shared slice under the race detector. distinct = distinct (policy, ignoreZone, #in-zone-eligible bucket, #fallback-eligible bucket, outcome) classes; a case is non-trivial when the list has ≥2 known candidates"
	r.Assumptions = []string{"the VPC API is simulated (DescribeVSwitchByID)", "expiry probes sleep ≥ 20× the 50ms TTL, 'within TTL' probes use a 1h TTL, so machine load cannot flip a verdict"}
	ctx := context.Background()

	// ---- single selections on a fresh pool ----
	for i := 0; i < nSeq; i++ {
		sim, cs := genC17(rng)
		pool, _ := vswitch.NewSwitchPool(100, "1h")
		ids := append([]string(nil), cs.IDs...)
		snapshot := append([]string(nil), cs.IDs...)
		var got *vswitch.Switch
		var err error
		func() {
			defer func() {
				if e := recover(); e != nil {
					r.Violate("C17.panic", "GetOne", fmt.Sprint(e), map[string]any{"case": cs})
				}
			}()
			got, err = pool.GetOne(ctx, sim, cs.Zone, ids, cs.opts()...)
		}()
		r.Eval(1)
		if !reflect.DeepEqual(ids, snapshot) && !(len(ids) == 0 && len(snapshot) == 0) {
			kind := "reordered"
			a, b := append([]string(nil), ids...), append([]string(nil), snapshot...)
			sortStrings(a)
			sortStrings(b)
			if !reflect.DeepEqual(a, b) {
				kind = "corrupted"
			}
			r.Violate("C17.caller-list-modified", fmt.Sprintf("policy=%s/%s", cs.Policy, kind), fmt.Sprintf("caller's candidate list %v became %v", snapshot, ids), map[string]any{"case": cs})
		}
		c17Judge(c, cs, sim, nil, got, err, "fresh")
		in, fb := cs.eligible(sim, nil)
		known := 0
		for _, id := range cs.IDs {
			if _, ok := cs.VSW[id]; ok {
				known++
			}
		}
		if known >= 2 {
			r.DistinctKey(fmt.Sprintf("seq/%s/%v/in%d/fb%d/%v", cs.Policy, cs.Ignore, bucket(len(in)), bucket(len(fb)), err == nil))
		}
		if i < 2 {
			g := ""
			if got != nil {
				g = got.ID
			}
			r.Sample(map[string]any{"case": cs, "chosen": g, "err": fmt.Sprint(err)})
		}
	}

	// ---- Block / expiry histories ----
	for h := 0; h < nHist; h++ {
		sim, cs := genC17(rng)
		if len(cs.IDs) == 0 {
			continue
		}
		short := h%10 == 0
		ttl := "1h"
		if short {
			ttl = "50ms"
		}
		pool, _ := vswitch.NewSwitchPool(100, ttl)
		blocked := map[string]bool{}
		steps := 3 + rng.Intn(8)
		for s := 0; s < steps; s++ {
			ids := append([]string(nil), cs.IDs...)
			got, err := pool.GetOne(ctx, sim, cs.Zone, ids, cs.opts()...)
			r.Eval(1)
			if !reflect.DeepEqual(ids, cs.IDs) {
				r.Violate("C17.caller-list-modified", fmt.Sprintf("policy=%s/history", cs.Policy), fmt.Sprintf("caller's candidate list %v became %v", cs.IDs, ids), map[string]any{"case": cs})
			}
			c17Judge(c, cs, sim, blocked, got, err, "after-block")
			if got == nil {
				break
			}
			// the caller found the switch exhausted (as factory/aliyun does on IpNotEnough)
			pool.Block(got.ID)
			blocked[got.ID] = true
			r.Count("block_calls", 1)
			if got != nil && got.AvailableIPCount == 0 {
				r.Violate("C17.corrupt-result", "block-mutated-result", "Block changed a Switch value already returned to a caller", map[string]any{"case": cs})
			}
		}
		r.DistinctKey(fmt.Sprintf("hist/%s/%v/blocked%d/short%v", cs.Policy, cs.Ignore, bucket(len(blocked)), short))
		if short && len(blocked) > 0 {
			// expiry: entries must be re-read from the cloud and become choosable again
			time.Sleep(1100 * time.Millisecond)
			ids := append([]string(nil), cs.IDs...)
			got, err := pool.GetOne(ctx, sim, cs.Zone, ids, cs.opts()...)
			r.Eval(1)
			c17Judge(c, cs, sim, nil, got, err, "after-expiry")
			r.Count("expiry_probes", 1)
		}
	}

	// ---- concurrent use of one pool and one shared candidate slice ----
	for h := 0; h < nConc; h++ {
		sim, cs := genC17(rng)
		if len(cs.IDs) < 2 {
			continue
		}
		sim.delay = time.Duration(rng.Intn(300)) * time.Microsecond
		pool, _ := vswitch.NewSwitchPool(100, "1h")
		shared := append([]string(nil), cs.IDs...) // like factory/aliyun's a.vSwitchOptions: one slice, many workers
		var wg sync.WaitGroup
		var bmu sync.Mutex
		everBlocked := map[string]bool{}
		pols := []string{cs.Policy, cs.Policy, "ordered", "most", "random"}
		seeds := make([]int64, 16)
		for i := range seeds {
			seeds[i] = rng.Int63()
		}
		for g := 0; g < 16; g++ {
			wg.Add(1)
			go func(g int) {
				defer wg.Done()
				lr := rand.New(rand.NewSource(seeds[g]))
				for k := 0; k < 6; k++ {
					lc := cs
					lc.Policy = pols[lr.Intn(len(pols))]
					got, err := pool.GetOne(ctx, sim, lc.Zone, shared, lc.opts()...)
					if err == nil && got != nil {
						truth := sim.sw[got.ID]
						if truth == nil || !contains(cs.IDs, got.ID) {
							r.Violate("C17.not-from-list", "concurrent", fmt.Sprintf("chose %s not in %v", got.ID, cs.IDs), map[string]any{"case": cs})
						} else {
							if truth.ZoneId != lc.Zone && !lc.Ignore {
								r.Violate("C17.wrong-zone", "concurrent", fmt.Sprintf("chose %s in zone %s want %s", got.ID, truth.ZoneId, lc.Zone), map[string]any{"case": cs})
							}
							if truth.AvailableIpAddressCount == 0 {
								r.Violate("C17.no-free-address", "concurrent", "chose exhausted "+got.ID, map[string]any{"case": cs})
							}
						}
						if lr.Intn(3) == 0 {
							bmu.Lock()
							everBlocked[got.ID] = true
							bmu.Unlock()
							pool.Block(got.ID)
						}
					}
				}
			}(g)
		}
		wg.Wait()
		r.Eval(16 * 6)
		a, b := append([]string(nil), shared...), append([]string(nil), cs.IDs...)
		if !reflect.DeepEqual(a, b) {
			kind := "reordered"
			sortStrings(a)
			sortStrings(b)
			if !reflect.DeepEqual(a, b) {
				kind = "corrupted"
			}
			r.Violate("C17.caller-list-modified", "concurrent/"+kind, fmt.Sprintf("shared candidate list %v became %v after concurrent selections", cs.IDs, shared), map[string]any{"case": cs})
		}
		// after the dust settles every blocked switch must stay unchosen
		ids := append([]string(nil), cs.IDs...)
		got, err := pool.GetOne(ctx, sim, cs.Zone, ids, cs.opts()...)
		c17Judge(c, cs, sim, everBlocked, got, err, "after-concurrent-block")
		r.DistinctKey(fmt.Sprintf("conc/%s/%v/blocked%d", cs.Policy, cs.Ignore, bucket(len(everBlocked))))
		r.Count("concurrent_histories", 1)
	}
	// ---- the call sites ----
	nSite := 400
	if c.Thorough {
		nSite = 20000
	}
	c17PerInterface(c, rng, nSite)
	c17Factory(c, rng, nSite/4)
	// the node controller's own use of the pool (closed loop): a vSwitch the cloud reported exhausted on any call
	// (create, IPv4 assign, IPv6 assign) is not named by the next interface creation while another candidate is free
	nLoop := 120
	if c.Thorough {
		nLoop = 600
	}
	// directed: the vSwitch of the first interface runs dry right after it was created; the second pod's address
	// assignment on that interface is refused for lack of addresses, and the interface the controller then creates
	// must not name that vSwitch again
	for k := 0; k < 8; k++ {
		dual := k%2 == 1
		cfg := ipamCfg{V4: true, V6: dual, Adapters: 4, V4Per: 4, V6Per: 4, MinPool: 0, MaxPool: 0, Pods: 4, Initial: "empty", VSWFree: 5000}
		h := newIpamHist(c, "C17", 970000+k, cfg, int64(970000+k)+r.Seed)
		fmt.Printf("CASE C17 directed-loop %d cfg %+v\n", 970000+k, cfg)
		for i := 0; i < 3; i++ {
			h.writePod(h.newPod(i, false))
			for j := 0; j < 3; j++ {
				_, _ = h.reconcile()
			}
			if i == 0 {
				// other nodes take what is left of the vSwitch the first interface landed on
				h.cloud.Mutate(func(cc *cloudsim.CtrlCloud) {
					for _, e := range cc.ENIs {
						if v := cc.VSWs[e.VSW]; v != nil && !e.Deleted {
							v.Free = 0
						}
					}
				})
				h.mon.note("the vSwitch of the first interface has no address left")
			}
		}
		r.Eval(1)
		r.Count("closed_loop_directed_cases", 1)
		h.finish(r, true)
	}
	runIpamHistories(c, "C17", nLoop, 40, func(i int, hr *rand.Rand) ipamCfg {
		cfg := genIpamCfg(hr)
		cfg.Adapters = max(cfg.Adapters, 4)
		cfg.Faults = map[int]cloudsim.Fault{}
		for k := 0; k < 2+hr.Intn(3); k++ {
			cfg.Faults[1+hr.Intn(25)] = cloudsim.Fault{Kind: cloudsim.FaultVSwExhaust}
		}
		return cfg
	}, func(h *ipamHist) { ipamRandomWalk(h) })
}

func bucket(n int) int {
	switch {
	case n <= 2:
		return n
	case n <= 4:
		return 3
	default:
		return 5
	}
}

func sortStrings(a []string) {
	for i := 1; i < len(a); i++ {
		for j := i; j > 0 && a[j] < a[j-1]; j-- {
			a[j], a[j-1] = a[j-1], a[j]
		}
	}
}
