module verifharness

go 1.24.0

require (
	github.com/AliyunContainerService/terway v0.0.0
	github.com/aliyun/alibaba-cloud-sdk-go v1.63.88
	github.com/anishathalye/porcupine v1.3.0
	github.com/containernetworking/cni v1.1.2
	github.com/containernetworking/plugins v1.3.0
	github.com/evanphx/json-patch v5.6.0+incompatible
	github.com/go-logr/logr v1.4.2
	github.com/vishvananda/netlink v1.2.1-beta.2
	golang.org/x/sys v0.31.0
	golang.org/x/time v0.7.0
	k8s.io/api v0.32.2
	k8s.io/apimachinery v0.32.2
	k8s.io/client-go v0.32.2
	sigs.k8s.io/controller-runtime v0.20.2
)

require (
	github.com/AliyunContainerService/ack-ram-tool/pkg/credentials/provider v0.16.1 // indirect
	github.com/alexflint/go-filemutex v1.2.0 // indirect
	github.com/beorn7/perks v1.0.1 // indirect
	github.com/blang/semver/v4 v4.0.0 // indirect
	github.com/boltdb/bolt v1.3.1 // indirect
	github.com/cespare/xxhash/v2 v2.3.0 // indirect
	github.com/coreos/go-iptables v0.6.0 // indirect
	github.com/davecgh/go-spew v1.1.2-0.20180830191138-d8f796af33cc // indirect
	github.com/emicklei/go-restful/v3 v3.11.0 // indirect
	github.com/evanphx/json-patch/v5 v5.9.11 // indirect
	github.com/fsnotify/fsnotify v1.7.0 // indirect
	github.com/fxamacker/cbor/v2 v2.7.0 // indirect
	github.com/go-logr/stdr v1.2.2 // indirect
	github.com/go-openapi/jsonpointer v0.21.0 // indirect
	github.com/go-openapi/jsonreference v0.20.2 // indirect
	github.com/go-openapi/swag v0.23.0 // indirect
	github.com/go-playground/locales v0.14.0 // indirect
	github.com/go-playground/mold/v4 v4.2.0 // indirect
	github.com/go-playground/universal-translator v0.18.0 // indirect
	github.com/go-playground/validator/v10 v10.11.1 // indirect
	github.com/gogo/protobuf v1.3.2 // indirect
	github.com/golang/protobuf v1.5.4 // indirect
	github.com/google/btree v1.1.3 // indirect
	github.com/google/gnostic-models v0.6.8 // indirect
	github.com/google/go-cmp v0.6.0 // indirect
	github.com/google/gofuzz v1.2.0 // indirect
	github.com/google/uuid v1.6.0 // indirect
	github.com/jmespath/go-jmespath v0.4.0 // indirect
	github.com/josharian/intern v1.0.0 // indirect
	github.com/json-iterator/go v1.1.12 // indirect
	github.com/leodido/go-urn v1.2.1 // indirect
	github.com/mailru/easyjson v0.7.7 // indirect
	github.com/modern-go/concurrent v0.0.0-20180306012644-bacd9c7ef1dd // indirect
	github.com/modern-go/reflect2 v1.0.2 // indirect
	github.com/munnerz/goautoneg v0.0.0-20191010083416-a7dc8b61c822 // indirect
	github.com/opentracing/opentracing-go v1.2.1-0.20220228012449-10b1cf09e00b // indirect
	github.com/pkg/errors v0.9.1 // indirect
	github.com/prometheus/client_golang v1.19.1 // indirect
	github.com/prometheus/client_model v0.6.1 // indirect
	github.com/prometheus/common v0.55.0 // indirect
	github.com/prometheus/procfs v0.15.1 // indirect
	github.com/safchain/ethtool v0.3.0 // indirect
	github.com/samber/lo v1.39.0 // indirect
	github.com/segmentio/go-camelcase v0.0.0-20160726192923-7085f1e3c734 // indirect
	github.com/segmentio/go-snakecase v1.2.0 // indirect
	github.com/spf13/cobra v1.8.1 // indirect
	github.com/spf13/pflag v1.0.5 // indirect
	github.com/vishvananda/netns v0.0.4 // indirect
	github.com/x448/float16 v0.8.4 // indirect
	go.opentelemetry.io/otel v1.28.0 // indirect
	go.opentelemetry.io/otel/metric v1.28.0 // indirect
	go.opentelemetry.io/otel/trace v1.28.0 // indirect
	go.uber.org/atomic v1.11.0 // indirect
	golang.org/x/crypto v0.36.0 // indirect
	golang.org/x/exp v0.0.0-20240719175910-8a7402abbf56 // indirect
	golang.org/x/net v0.37.0 // indirect
	golang.org/x/oauth2 v0.23.0 // indirect
	golang.org/x/sync v0.12.0 // indirect
	golang.org/x/term v0.30.0 // indirect
	golang.org/x/text v0.23.0 // indirect
	gomodules.xyz/jsonpatch/v2 v2.4.0 // indirect
	google.golang.org/genproto/googleapis/rpc v0.0.0-20240826202546-f6391c0de4c7 // indirect
	google.golang.org/grpc v1.65.0 // indirect
	google.golang.org/protobuf v1.35.1 // indirect
	gopkg.in/evanphx/json-patch.v4 v4.12.0 // indirect
	gopkg.in/inf.v0 v0.9.1 // indirect
	gopkg.in/ini.v1 v1.67.0 // indirect
	gopkg.in/yaml.v2 v2.4.0 // indirect
	gopkg.in/yaml.v3 v3.0.1 // indirect
	k8s.io/apiextensions-apiserver v0.32.2 // indirect
	k8s.io/apiserver v0.32.2 // indirect
	k8s.io/component-base v0.32.2 // indirect
	k8s.io/klog/v2 v2.130.1 // indirect
	k8s.io/kube-openapi v0.0.0-20241105132330-32ad38e42d3f // indirect
	k8s.io/kubelet v0.29.9 // indirect
	k8s.io/utils v0.0.0-20241104100929-3ea5e8cea738 // indirect
	sigs.k8s.io/json v0.0.0-20241010143419-9aa6b5e7a4b3 // indirect
	sigs.k8s.io/structured-merge-diff/v4 v4.4.2 // indirect
	sigs.k8s.io/yaml v1.4.0 // indirect
)

replace github.com/AliyunContainerService/terway => /repo

replace github.com/vishvananda/netlink => github.com/BSWANG/netlink v1.0.1-0.20220803105814-1f63f9d61229
