#!/bin/bash
# Builds the harness once (warms the Go build cache). Offline: modules come from the module cache.
set -eu
ROOT="$(cd "$(dirname "$0")" && pwd)"
export GOFLAGS=-mod=mod GOPROXY=off
unset GOTOOLCHAIN GOSUMDB 2>/dev/null || true
mkdir -p "$ROOT/bin" "$ROOT/evidence"
cd "$ROOT/harness"
go build -race -gcflags=github.com/boltdb/bolt=-d=checkptr=0 -tags default_build,verif -o "$ROOT/bin/verifrun" ./cmd/verifrun
echo "setup ok"
