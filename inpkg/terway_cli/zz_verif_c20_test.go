//go:build verif

package main

// C20 chain half: mergeConfigList over the complete product of inputs, with the real
// switchDataPathV2 / allowEBPFNetworkPolicy (capabilities file on a private tmpfs, cilium_net
// link created/removed in a private netns).

import (
	"encoding/json"
	"fmt"
	"os"
	"strings"
	"testing"

	"github.com/vishvananda/netlink"
	utilfeature "k8s.io/apiserver/pkg/util/feature"

	"github.com/AliyunContainerService/terway/pkg/utils/nodecap"
)

type c20Plugin struct {
	Type string
	Raw  map[string]any
}

func c20SetLink(exist bool) error {
	l, err := netlink.LinkByName("cilium_net")
	if exist {
		if err == nil {
			return nil
		}
		return netlink.LinkAdd(&netlink.Veth{LinkAttrs: netlink.LinkAttrs{Name: "cilium_net"}, PeerName: "cilium_host"})
	}
	if err == nil {
		return netlink.LinkDel(l)
	}
	return nil
}

func TestVerifC20Chain(t *testing.T) {
	d := newVerifDump()
	defer func() {
		if err := d.write(); err != nil {
			t.Fatal(err)
		}
	}()
	if _, err := os.Stat("/run/eni"); err != nil {
		d.inconclusive("no private /run/eni: " + err.Error())
		return
	}
	_switchDataPathV2 = switchDataPathV2
	_checkKernelVersion = func(int, int, int) bool { return true }

	lists := [][]string{
		{"terway"}, {"terway", "cilium-cni"}, {"cilium-cni", "terway"}, {"terway", "portmap"},
		{"terway", "bandwidth", "cilium-cni"}, {"terway", "unknown-plugin"}, {"portmap", "terway", "cilium-cni", "bandwidth"},
		{"portmap"}, {"terway", "cilium-cni", "cilium-cni"},
	}
	kernels := [][2]bool{{false, false}, {true, false}, {true, true}}
	providers := []string{"<absent>", "iptables", "ebpf"}
	vtypes := []string{"<absent>", "veth", "ipvlan", "datapathv2", "IPVlan", "Veth", "DataPathV2", "unknown", ""}
	capDatapath := []string{"<none>", "datapathv2", "ipvlan"}
	capChainer := []string{"<none>", "true", "false"}

	for _, linkExist := range []bool{false, true} {
		if err := c20SetLink(linkExist); err != nil {
			d.inconclusive(fmt.Sprintf("cannot set cilium_net link state %v: %v", linkExist, err))
			continue
		}
		for _, gate := range []bool{false, true} {
			if err := utilfeature.DefaultMutableFeatureGate.SetFromMap(map[string]bool{"AutoDataPathV2": gate}); err != nil {
				d.inconclusive("feature gate: " + err.Error())
				return
			}
			for _, cdp := range capDatapath {
				for _, cch := range capChainer {
					// recorded capabilities: file (allowEBPFNetworkPolicy) + global store (switchDataPathV2)
					_ = os.Remove(nodeCapabilitiesFile)
					var lines []string
					if cdp != "<none>" {
						lines = append(lines, "datapath = "+cdp)
						nodecap.SetNodeCapabilities(nodecap.NodeCapabilityDataPath, cdp)
					} else {
						nodecap.SetNodeCapabilities(nodecap.NodeCapabilityDataPath, "")
					}
					if cch != "<none>" {
						lines = append(lines, "has_cilium_chainer = "+cch)
					}
					if len(lines) > 0 {
						if err := os.WriteFile(nodeCapabilitiesFile, []byte(strings.Join(lines, "\n")+"\n"), 0o644); err != nil {
							d.inconclusive("write capabilities: " + err.Error())
							return
						}
					}
					for _, list := range lists {
						for _, k := range kernels {
							for _, prov := range providers {
								for _, vt := range vtypes {
									for _, np := range []bool{false, true} {
										c20One(d, list, k[0], k[1], prov, vt, np, gate, cdp, cch, linkExist)
									}
								}
							}
						}
					}
				}
			}
		}
	}
	_ = c20SetLink(false)
	d.Extra["chain_product_exhaustive"] = true
}

func c20One(d *verifDump, list []string, ebpf, edt bool, prov, vt string, np, gate bool, cdp, cch string, linkExist bool) {
	caseDesc := map[string]any{"plugins": list, "ebpf": ebpf, "edt": edt, "provider": prov, "virtual_type": vt, "network_policy": np, "gate_AutoDataPathV2": gate, "cap_datapath": cdp, "cap_chainer": cch, "cilium_net": linkExist}
	var configs [][]byte
	for i, p := range list {
		m := map[string]any{"type": p, "cniVersion": "0.4.0", "name": "x", "marker": fmt.Sprintf("m%d", i)}
		if p == "terway" {
			if prov != "<absent>" {
				m["network_policy_provider"] = prov
			}
			if vt != "<absent>" {
				m["eniip_virtual_type"] = vt
			}
		}
		b, _ := json.Marshal(m)
		configs = append(configs, b)
	}
	d.eval(1)
	var out string
	var err error
	func() {
		defer func() {
			if e := recover(); e != nil {
				err = fmt.Errorf("panic: %v", e)
				d.violate("C20.panic", "mergeConfigList", fmt.Sprint(e), caseDesc)
			}
		}()
		out, err = mergeConfigList(configs, &feature{EBPF: ebpf, EDT: edt, EnableNetworkPolicy: np})
	}()
	hasTerway := false
	for _, p := range list {
		if p == "terway" {
			hasTerway = true
		}
	}
	d.distinct(fmt.Sprintf("chain/%s/%v%v/%s/%s/%v/%v/%s/%s/%v/%v", strings.Join(list, "+"), ebpf, edt, prov, strings.ToLower(vt), np, gate, cdp, cch, linkExist, err == nil))
	if err != nil {
		// rejecting is allowed only for the unsupported virtual type
		if !(ebpf && hasTerway && strings.ToLower(vt) == "unknown") {
			d.violate("C20.chain-rejected-valid-input", "mergeConfigList", "supported input rejected: "+err.Error(), caseDesc)
		}
		return
	}
	var doc struct {
		CNIVersion string           `json:"cniVersion"`
		Name       string           `json:"name"`
		Plugins    []map[string]any `json:"plugins"`
	}
	if e := json.Unmarshal([]byte(out), &doc); e != nil {
		d.violate("C20.chain-invalid-json", "output", e.Error(), caseDesc)
		return
	}
	// order preservation: markers of the output (ignoring an appended chainer without marker) must be the
	// input order minus dropped cilium entries (only when eBPF is unsupported)
	var gotMarkers []string
	cilium := 0
	appended := 0
	for i, p := range doc.Plugins {
		ty, _ := p["type"].(string)
		if ty == "cilium-cni" {
			cilium++
		}
		mk, ok := p["marker"].(string)
		if !ok {
			if ty == "cilium-cni" && i == len(doc.Plugins)-1 {
				appended++
				continue
			}
			d.violate("C20.chain-order", "foreign-entry", fmt.Sprintf("output entry %d (%s) is not from the input", i, ty), caseDesc)
			continue
		}
		gotMarkers = append(gotMarkers, mk)
	}
	var wantMarkers []string
	for i, p := range list {
		if p == "cilium-cni" && !ebpf {
			continue
		}
		wantMarkers = append(wantMarkers, fmt.Sprintf("m%d", i))
	}
	if strings.Join(gotMarkers, ",") != strings.Join(wantMarkers, ",") {
		d.violate("C20.chain-order", "order", fmt.Sprintf("plugin order %v, want %v", gotMarkers, wantMarkers), caseDesc)
	}
	if !ebpf && cilium > 0 {
		d.violate("C20.chainer-without-ebpf", "cilium-on-non-ebpf-kernel", fmt.Sprintf("%d cilium-cni entries on a kernel without eBPF support", cilium), caseDesc)
	}
	selected := ""
	for _, p := range doc.Plugins {
		if ty, _ := p["type"].(string); ty != "terway" {
			continue
		}
		v, has := p["eniip_virtual_type"]
		if ebpf {
			s, _ := v.(string)
			if !has || (s != "veth" && s != "ipvlan" && s != "datapathv2") {
				d.violate("C20.virtual-type-unsupported", "eniip_virtual_type", fmt.Sprintf("generated eniip_virtual_type=%v", v), caseDesc)
			}
			selected = s
			bm, _ := p["bandwidth_mode"].(string)
			if bm != "edt" && bm != "tc" {
				d.violate("C20.bandwidth-mode-unsupported", "bandwidth_mode", fmt.Sprintf("generated bandwidth_mode=%v", p["bandwidth_mode"]), caseDesc)
			}
			if bm == "edt" && !edt {
				d.violate("C20.bandwidth-mode-unsupported", "edt-without-kernel-support", "edt selected on a kernel without EDT", caseDesc)
			}
		} else if has {
			if s, _ := v.(string); s == "ipvlan" || s == "datapathv2" {
				d.violate("C20.virtual-type-unsupported", "ebpf-datapath-on-non-ebpf-kernel", fmt.Sprintf("eniip_virtual_type=%v kept on a kernel without eBPF", v), caseDesc)
			}
		}
	}
	for _, p := range doc.Plugins {
		// EDT shaping is done by the eBPF chainer's bandwidth manager; the plugin skips its own tc shaping in that
		// mode: a chain that says edt without a chainer shapes nothing
		if ty, _ := p["type"].(string); ty == "terway" && ebpf {
			if bm, _ := p["bandwidth_mode"].(string); bm == "edt" && cilium == 0 {
				d.violate("C20.bandwidth-mode-unsupported", "edt-without-chainer", "bandwidth_mode=edt in a chain without an eBPF chainer: nobody enforces pod bandwidth", caseDesc)
			}
		}
	}
	if (selected == "ipvlan" || selected == "datapathv2") && cilium == 0 {
		d.violate("C20.chainer-missing", selected, "datapath "+selected+" selected but no cilium-cni chainer in the list", caseDesc)
	}
	if cilium > 0 && appended > 0 && cilium-appended > 0 {
		d.violate("C20.chain-order", "duplicate-chainer", "a chainer was appended although the input already had one", caseDesc)
	}
	d.count("chain_cases_with_chainer", int64(min(cilium, 1)))
	if selected != "" {
		d.count("chain_selected_"+selected, 1)
	}
	if ebpf && len(list) > 1 {
		d.sample(map[string]any{"case": caseDesc, "output_plugins": doc.Plugins})
	}
}
