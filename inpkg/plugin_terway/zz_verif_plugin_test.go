//go:build verif

package main

// In-package monitors for the CNI plugin (package main), injected with `go test -overlay`.
// C15: getCmdArgs + parseSetupConf/parseTearDownConf/parseCheckConf on arbitrary CNI config.
// C12 (plugin half): the plugin recovers exactly what the daemon sent and picks the datapath
// from (IP type, trunk, vlan mode) only.

import (
	"encoding/json"
	"fmt"
	"math/rand"
	"net"
	"runtime/debug"
	"strings"
	"testing"

	"github.com/containernetworking/cni/pkg/skel"

	"github.com/AliyunContainerService/terway/plugin/driver/types"
	"github.com/AliyunContainerService/terway/rpc"
)

var pluginFuzzTokens = []string{"", "0", "-1", "1500", "99999999999999999999", "1e9", "true", "null", "\"\"", "\"ipvlan\"", "\"IPVlan\"", "\"vlan\"", "\"filter\"", "[]", "{}", "[\"10.0.0.0/8\"]", "[\"bad\"]", "[1]", "{\"bandwidth\":{\"ingressRate\":-5}}", "\"\\u0000\"", "[[[[[[[[]]]]]]]]"}

func pluginFuzzConf(rng *rand.Rand) []byte {
	valid := map[string]string{
		"cniVersion": "\"0.4.0\"", "name": "\"terway\"", "type": "\"terway\"", "veth_prefix": "\"cali\"", "eniip_virtual_type": "\"veth\"",
		"host_stack_cidrs": "[\"169.254.20.10/32\"]", "disable_host_peer": "false", "vlan_strip_type": "\"filter\"", "mtu": "1500",
		"runtimeConfig": "{\"bandwidth\":{\"ingressRate\":8000,\"egressRate\":16000,\"ingressBurst\":1,\"egressBurst\":1}}", "bandwidth_mode": "\"tc\"",
		"enable_network_priority": "false", "debug": "false", "ipam": "{\"type\":\"x\"}", "dns": "{\"nameservers\":[\"1.1.1.1\"]}", "capabilities": "{\"bandwidth\":true}", "prevResult": "{\"cniVersion\":\"0.4.0\"}",
	}
	var parts []string
	for k, v := range valid {
		switch rng.Intn(6) {
		case 0:
			continue
		case 1:
			v = pluginFuzzTokens[rng.Intn(len(pluginFuzzTokens))]
		}
		parts = append(parts, fmt.Sprintf("%q:%s", k, v))
	}
	s := "{" + strings.Join(parts, ",") + "}"
	switch rng.Intn(10) {
	case 0:
		if len(s) > 0 {
			s = s[:rng.Intn(len(s))]
		}
	case 1:
		b := make([]byte, rng.Intn(40))
		rng.Read(b)
		s = string(b)
	case 2:
		s = strings.Repeat("[", 3000) + s
	}
	return []byte(s)
}

func pluginGuard(d *verifDump, entry string, input any, f func()) {
	defer func() {
		if e := recover(); e != nil {
			st := string(debug.Stack())
			site := entry
			for _, line := range strings.Split(st[strings.Index(st, "panic("):], "\n") {
				line = strings.TrimSpace(line)
				if strings.HasPrefix(line, "github.com/AliyunContainerService/terway/") || strings.HasPrefix(line, "main.") {
					if i := strings.LastIndex(line, "("); i > 0 {
						line = line[:i]
					}
					site = entry + "@" + strings.TrimPrefix(line, "github.com/AliyunContainerService/terway/")
					break
				}
			}
			d.violate("C15.panic", site, fmt.Sprintf("panic: %v", e), map[string]any{"entry": entry, "input": fmt.Sprint(input)})
		}
	}()
	f()
}

func saneAlloc(rng *rand.Rand) (*rpc.NetConf, rpc.IPType) {
	nc := &rpc.NetConf{
		BasicInfo: &rpc.BasicInfo{PodIP: &rpc.IPSet{IPv4: "10.1.2.3"}, PodCIDR: &rpc.IPSet{IPv4: "10.1.0.0/16"}, GatewayIP: &rpc.IPSet{IPv4: "10.1.255.253"}, ServiceCIDR: &rpc.IPSet{IPv4: "172.16.0.0/16"}},
		ENIInfo:   &rpc.ENIInfo{MAC: "", Trunk: rng.Intn(2) == 0, Vid: uint32(rng.Intn(4000))},
		Pod:       &rpc.Pod{Ingress: uint64(rng.Intn(1000)), Egress: uint64(rng.Intn(1000)), NetworkPriority: []string{"", "best-effort", "burstable", "guaranteed", "x"}[rng.Intn(5)]},
		IfName:    []string{"", "eth0", "eth1"}[rng.Intn(3)], DefaultRoute: rng.Intn(2) == 0,
	}
	if rng.Intn(2) == 0 {
		nc.ExtraRoutes = []*rpc.Route{{Dst: "192.168.0.0/16"}}
	}
	if rng.Intn(3) == 0 {
		// extra routes are the user's (pod-networks / pod-networks-request annotation); nothing between the
		// annotation and the plugin validates their destination
		dsts := []string{"10.0.0.0", "", "10.0.0.0/33", "::/129", "garbage", "fd00::/64", "0.0.0.0/0", "10.0.0.0/8 ", "/24"}
		for k, n := 0, 1+rng.Intn(2); k < n; k++ {
			nc.ExtraRoutes = append(nc.ExtraRoutes, &rpc.Route{Dst: dsts[rng.Intn(len(dsts))]})
		}
	}
	return nc, []rpc.IPType{rpc.IPType_TypeENIMultiIP, rpc.IPType_TypeVPCENI}[rng.Intn(2)]
}

func TestVerifC15Plugin(t *testing.T) {
	d := newVerifDump()
	defer func() {
		if err := d.write(); err != nil {
			t.Fatal(err)
		}
	}()
	rng := rand.New(rand.NewSource(verifSeed()))
	n := 30000
	if verifThorough() {
		n = 600000
	}
	argsAlphabet := []string{"K8S_POD_NAME=p;K8S_POD_NAMESPACE=default;K8S_POD_INFRA_CONTAINER_ID=c1", "", "IgnoreUnknown=1;K8S_POD_NAME=p", "K8S_POD_NAME", "=;=;", "IP=bad;K8S_POD_NAME=p", "K8S_POD_NAME=\x00;X=1", strings.Repeat("A=b;", 500)}
	for i := 0; i < n; i++ {
		conf := pluginFuzzConf(rng)
		args := &skel.CmdArgs{ContainerID: "c1", Netns: "/proc/self/ns/net", IfName: []string{"eth0", "", "net1"}[rng.Intn(3)], Args: argsAlphabet[rng.Intn(len(argsAlphabet))], StdinData: conf}
		if rng.Intn(20) == 0 {
			args.Netns = "/nonexistent"
		}
		fmt.Printf("CASE plugin conf=%.400q args=%.80q\n", conf, args.Args)
		d.eval(1)
		var ca *cniCmdArgs
		pluginGuard(d, "plugin.getCmdArgs", string(conf), func() {
			var err error
			ca, err = getCmdArgs(args)
			if err != nil {
				ca = nil
			}
			d.distinct(fmt.Sprintf("plugin/getCmdArgs/%v", err == nil))
		})
		if ca == nil {
			continue
		}
		alloc, ipType := saneAlloc(rng)
		pluginGuard(d, "plugin.parseSetupConf", string(conf), func() {
			_, err := parseSetupConf(args, alloc, ca.GetCNIConf(), ipType)
			d.distinct(fmt.Sprintf("plugin/parseSetupConf/%v", err == nil))
		})
		pluginGuard(d, "plugin.parseTearDownConf", string(conf), func() { _, _ = parseTearDownConf(alloc, ca.GetCNIConf(), ipType) })
		pluginGuard(d, "plugin.parseCheckConf", string(conf), func() { _, _ = parseCheckConf(args, alloc, ca.GetCNIConf(), ipType) })
		_ = ca.Close()
		if i < 2 {
			d.sample(map[string]any{"entry": "plugin", "conf": string(conf)})
		}
	}
}

// ---------------- C12 plugin half ----------------

type c12Alloc struct {
	IPType rpc.IPType
	NC     *rpc.NetConf
}

func genC12Alloc(rng *rand.Rand) c12Alloc {
	v4 := rng.Intn(3) != 0
	v6 := !v4 || rng.Intn(2) == 0
	bi := &rpc.BasicInfo{PodIP: &rpc.IPSet{}, PodCIDR: &rpc.IPSet{}, GatewayIP: &rpc.IPSet{}, ServiceCIDR: &rpc.IPSet{}}
	if v4 {
		bits := 16 + rng.Intn(13)
		base := net.IPv4(10, byte(rng.Intn(250)), 0, 0).To4()
		_, cidr, _ := net.ParseCIDR(fmt.Sprintf("%s/%d", base, bits))
		ip := append(net.IP(nil), cidr.IP...)
		ip[3] = byte(1 + rng.Intn(200))
		bi.PodIP.IPv4, bi.PodCIDR.IPv4 = ip.String(), cidr.String()
		gw := append(net.IP(nil), cidr.IP...)
		for i := range gw {
			gw[i] |= ^cidr.Mask[i]
		}
		gw[3] -= 2
		bi.GatewayIP.IPv4 = gw.String()
		bi.ServiceCIDR.IPv4 = "172.16.0.0/16"
	}
	if v6 {
		bi.PodCIDR.IPv6 = fmt.Sprintf("fd00:%x::/64", rng.Intn(65535))
		_, cidr, _ := net.ParseCIDR(bi.PodCIDR.IPv6)
		ip := append(net.IP(nil), cidr.IP...)
		ip[15] = byte(1 + rng.Intn(200))
		ip[14] = byte(rng.Intn(255))
		bi.PodIP.IPv6 = ip.String()
		gw := append(net.IP(nil), cidr.IP...)
		for i := 8; i < 16; i++ {
			gw[i] = 0xff
		}
		gw[15] = 0xfd
		bi.GatewayIP.IPv6 = gw.String()
		bi.ServiceCIDR.IPv6 = "fd01::/108"
	}
	nc := &rpc.NetConf{BasicInfo: bi, ENIInfo: &rpc.ENIInfo{MAC: "", Trunk: rng.Intn(2) == 0, Vid: uint32(rng.Intn(4095)), ERDMA: rng.Intn(5) == 0},
		Pod: &rpc.Pod{Ingress: uint64(rng.Intn(1 << 30)), Egress: uint64(rng.Intn(1 << 30)), NetworkPriority: []string{"", "best-effort", "burstable", "guaranteed"}[rng.Intn(4)]},
		IfName: []string{"", "eth0", "eth1", "net1"}[rng.Intn(4)], DefaultRoute: rng.Intn(2) == 0}
	if rng.Intn(3) == 0 {
		nc.ENIInfo.GatewayIP = &rpc.IPSet{IPv4: bi.GatewayIP.IPv4, IPv6: bi.GatewayIP.IPv6}
	}
	for i, n := 0, rng.Intn(3); i < n; i++ {
		if v4 && (rng.Intn(2) == 0 || !v6) {
			nc.ExtraRoutes = append(nc.ExtraRoutes, &rpc.Route{Dst: fmt.Sprintf("192.168.%d.0/24", rng.Intn(255))})
		} else if v6 {
			nc.ExtraRoutes = append(nc.ExtraRoutes, &rpc.Route{Dst: fmt.Sprintf("fd02:%x::/64", rng.Intn(65535))})
		}
	}
	return c12Alloc{IPType: []rpc.IPType{rpc.IPType_TypeENIMultiIP, rpc.IPType_TypeVPCENI}[rng.Intn(2)], NC: nc}
}

func TestVerifC12Plugin(t *testing.T) {
	d := newVerifDump()
	defer func() {
		if err := d.write(); err != nil {
			t.Fatal(err)
		}
	}()
	rng := rand.New(rand.NewSource(verifSeed() + 12))
	n := 40000
	if verifThorough() {
		n = 800000
	}
	for i := 0; i < n; i++ {
		a := genC12Alloc(rng)
		conf := &types.CNIConf{MTU: []int{1500, 1400, 9000}[rng.Intn(3)], VlanStripType: types.VlanStripType([]string{"", "filter", "vlan", "x"}[rng.Intn(4)]),
			ENIIPVirtualType: []string{"", "veth", "ipvlan", "IPVlan"}[rng.Intn(4)], DisableHostPeer: rng.Intn(4) == 0, BandwidthMode: []string{"", "tc", "edt"}[rng.Intn(3)], EnableNetworkPriority: rng.Intn(3) == 0}
		if rng.Intn(3) == 0 {
			conf.HostStackCIDRs = []string{"169.254.20.10/32"}
		}
		if rng.Intn(3) == 0 {
			conf.RuntimeConfig.Bandwidth.IngressRate = rng.Intn(1 << 30)
		}
		if rng.Intn(3) == 0 {
			conf.RuntimeConfig.Bandwidth.EgressRate = rng.Intn(1 << 30)
		}
		args := &skel.CmdArgs{IfName: "eth0", Netns: "/proc/self/ns/net"}
		rep := map[string]any{"alloc": a.NC, "ipType": a.IPType.String(), "conf": conf}
		d.eval(1)
		var sc *types.SetupConfig
		var err error
		pluginGuard(d, "plugin.parseSetupConf", rep, func() { sc, err = parseSetupConf(args, a.NC, conf, a.IPType) })
		if err != nil || sc == nil {
			d.violate("C12.plugin-rejects-daemon-config", "parseSetupConf", fmt.Sprintf("well-formed daemon configuration rejected: %v", err), rep)
			continue
		}
		// datapath table: function of (IP type, trunk, vlan mode) only
		var wantDP types.DataPath
		switch a.IPType {
		case rpc.IPType_TypeVPCENI:
			wantDP = types.ExclusiveENI
			if a.NC.ENIInfo.Trunk {
				wantDP = types.Vlan
			}
		case rpc.IPType_TypeENIMultiIP:
			wantDP = types.IPVlan
			if a.NC.ENIInfo.Trunk && conf.VlanStripType == "vlan" {
				wantDP = types.Vlan
			}
		}
		d.distinct(fmt.Sprintf("c12plugin/%s/trunk%v/strip%s/v4%v/v6%v/routes%d", a.IPType, a.NC.ENIInfo.Trunk, conf.VlanStripType, a.NC.BasicInfo.PodIP.IPv4 != "", a.NC.BasicInfo.PodIP.IPv6 != "", len(a.NC.ExtraRoutes)))
		if sc.DP != wantDP {
			d.violate("C12.datapath-table", fmt.Sprintf("%s/trunk=%v/strip=%s", a.IPType, a.NC.ENIInfo.Trunk, conf.VlanStripType), fmt.Sprintf("datapath %d, table says %d", sc.DP, wantDP), rep)
		}
		tc, err2 := parseTearDownConf(a.NC, conf, a.IPType)
		cc, err3 := parseCheckConf(args, a.NC, conf, a.IPType)
		if err2 != nil || err3 != nil {
			d.violate("C12.plugin-rejects-daemon-config", "teardown/check", fmt.Sprintf("%v %v", err2, err3), rep)
			continue
		}
		if cc.DP != wantDP {
			d.violate("C12.datapath-table", "check", fmt.Sprintf("check datapath %d, table says %d", cc.DP, wantDP), rep)
		}
		// teardown does not know trunk: it must agree with setup whenever trunking is off
		if !a.NC.ENIInfo.Trunk && tc.DP != wantDP {
			d.violate("C12.datapath-table", "teardown", fmt.Sprintf("teardown datapath %d, setup %d", tc.DP, wantDP), rep)
		}
		// recovered values
		bi := a.NC.BasicInfo
		chk := func(what, got, want string) {
			if got != want {
				d.violate("C12.plugin-value-mismatch", what, fmt.Sprintf("%s: plugin has %q, daemon sent %q", what, got, want), rep)
			}
		}
		ipn := func(x *net.IPNet) string {
			if x == nil {
				return ""
			}
			return x.String()
		}
		ips := func(x net.IP) string {
			if x == nil {
				return ""
			}
			return x.String()
		}
		cidrWith := func(ip, cidr string) string {
			if ip == "" || cidr == "" {
				return ""
			}
			_, c, _ := net.ParseCIDR(cidr)
			ones, _ := c.Mask.Size()
			return fmt.Sprintf("%s/%d", net.ParseIP(ip).String(), ones)
		}
		chk("addr4", ipn(sc.ContainerIPNet.IPv4), cidrWith(bi.PodIP.IPv4, bi.PodCIDR.IPv4))
		chk("addr6", ipn(sc.ContainerIPNet.IPv6), cidrWith(bi.PodIP.IPv6, bi.PodCIDR.IPv6))
		chk("gw4", ips(sc.GatewayIP.IPv4), bi.GatewayIP.IPv4)
		chk("gw6", ips(sc.GatewayIP.IPv6), bi.GatewayIP.IPv6)
		chk("check-addr4", ipn(cc.ContainerIPNet.IPv4), cidrWith(bi.PodIP.IPv4, bi.PodCIDR.IPv4))
		chk("check-gw6", ips(cc.GatewayIP.IPv6), bi.GatewayIP.IPv6)
		chk("teardown-addr4", ipn(tc.ContainerIPNet.IPv4), cidrWith(bi.PodIP.IPv4, bi.PodCIDR.IPv4))
		chk("teardown-addr6", ipn(tc.ContainerIPNet.IPv6), cidrWith(bi.PodIP.IPv6, bi.PodCIDR.IPv6))
		wantName := a.NC.IfName
		if wantName == "" {
			wantName = "eth0"
		}
		chk("ifname", sc.ContainerIfName, wantName)
		chk("check-ifname", cc.ContainerIfName, wantName)
		chk("default-route", fmt.Sprint(sc.DefaultRoute), fmt.Sprint(a.NC.DefaultRoute))
		chk("mtu", fmt.Sprint(sc.MTU), fmt.Sprint(conf.MTU))
		chk("trunk/vid", fmt.Sprintf("%v/%d", sc.StripVlan, sc.Vid), fmt.Sprintf("%v/%d", a.NC.ENIInfo.Trunk, a.NC.ENIInfo.Vid))
		chk("erdma", fmt.Sprint(sc.ERDMA), fmt.Sprint(a.NC.ENIInfo.ERDMA))
		wantIn, wantEg := a.NC.Pod.Ingress, a.NC.Pod.Egress
		if conf.RuntimeConfig.Bandwidth.IngressRate > 0 {
			wantIn = uint64(conf.RuntimeConfig.Bandwidth.IngressRate / 8)
		}
		if conf.RuntimeConfig.Bandwidth.EgressRate > 0 {
			wantEg = uint64(conf.RuntimeConfig.Bandwidth.EgressRate / 8)
		}
		chk("ingress", fmt.Sprint(sc.Ingress), fmt.Sprint(wantIn))
		chk("egress", fmt.Sprint(sc.Egress), fmt.Sprint(wantEg))
		if len(sc.ExtraRoutes) != len(a.NC.ExtraRoutes) {
			d.violate("C12.plugin-value-mismatch", "extra-routes-count", fmt.Sprintf("%d routes, daemon sent %d", len(sc.ExtraRoutes), len(a.NC.ExtraRoutes)), rep)
		} else {
			for j, rt := range sc.ExtraRoutes {
				_, wn, _ := net.ParseCIDR(a.NC.ExtraRoutes[j].Dst)
				chk("extra-route-dst", rt.Dst.String(), wn.String())
				wantGW := bi.GatewayIP.IPv4
				if wn.IP.To4() == nil {
					wantGW = bi.GatewayIP.IPv6
				}
				chk("extra-route-gw", ips(rt.GW), wantGW)
			}
		}
		if a.NC.ENIInfo.GatewayIP != nil {
			chk("eni-gw4", ips(sc.ENIGatewayIP.IPv4), a.NC.ENIInfo.GatewayIP.IPv4)
		}
		if i < 2 {
			b, _ := json.Marshal(rep)
			d.sample(json.RawMessage(b))
		}
	}
}
