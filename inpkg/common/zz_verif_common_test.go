//go:build verif

package main

// Shared helper for in-package monitors injected with `go test -overlay`; writes a dump that
// /verif/harness/monitor.Dump can read.

import (
	"encoding/json"
	"fmt"
	"os"
	"strconv"
	"sync"
)

type verifViolation struct {
	Class  string `json:"class"`
	Site   string `json:"site"`
	Detail string `json:"detail"`
	Replay any    `json:"replay,omitempty"`
}

type verifDump struct {
	mu           sync.Mutex
	Evaluations  int64
	Distinct     int64
	Rule         string
	Samples      []any
	Extra        map[string]any
	Assumptions  []string
	Violations   []verifViolation
	Inconclusive []string
	DistinctSet  []string
	Counters     map[string]int64
	dset         map[string]struct{}
	perSite      map[string]int
}

func newVerifDump() *verifDump {
	return &verifDump{Extra: map[string]any{}, Counters: map[string]int64{}, dset: map[string]struct{}{}, perSite: map[string]int{}}
}

func (d *verifDump) violate(class, site, detail string, replay any) {
	d.mu.Lock()
	defer d.mu.Unlock()
	d.Counters["violation:"+class+"|"+site]++
	d.perSite[class+"|"+site]++
	if d.perSite[class+"|"+site] > 5 {
		return
	}
	d.Violations = append(d.Violations, verifViolation{class, site, detail, replay})
}
func (d *verifDump) distinct(k string) { d.mu.Lock(); d.dset[k] = struct{}{}; d.mu.Unlock() }
func (d *verifDump) count(k string, n int64) {
	d.mu.Lock()
	d.Counters[k] += n
	d.mu.Unlock()
}
func (d *verifDump) eval(n int64) { d.mu.Lock(); d.Evaluations += n; d.mu.Unlock() }
func (d *verifDump) sample(s any) {
	d.mu.Lock()
	if len(d.Samples) < 3 {
		d.Samples = append(d.Samples, s)
	}
	d.mu.Unlock()
}
func (d *verifDump) inconclusive(s string) {
	d.mu.Lock()
	d.Inconclusive = append(d.Inconclusive, s)
	d.mu.Unlock()
}

func (d *verifDump) write() error {
	d.mu.Lock()
	defer d.mu.Unlock()
	for k := range d.dset {
		d.DistinctSet = append(d.DistinctSet, k)
	}
	out := os.Getenv("VERIF_INPKG_OUT")
	if out == "" {
		return fmt.Errorf("VERIF_INPKG_OUT not set")
	}
	b, err := json.Marshal(d)
	if err != nil {
		return err
	}
	return os.WriteFile(out, b, 0o644)
}

func verifSeed() int64 {
	if n, err := strconv.ParseInt(os.Getenv("VERIF_SEED"), 10, 64); err == nil {
		return n
	}
	return 20260926
}

func verifThorough() bool { return os.Getenv("VERIF_TIER") == "thorough" }
